import NxModel.Nex.Rmc
import NxProofs.Bytes
import NxProofs.Bits
/-! proofs about the RMC framing model -/
namespace Nx.Rmc
open Nx

theorem specProto_length (r : Bool) (p : Nat) : (specProto r p).length = if p ≥ 127 then 3 else 1 := by
  unfold specProto; by_cases h : p ≥ 127 <;> cases r <;> simp [h]

/-- reading the protocol prefix back -/
theorem rd_specProto (isReq : Bool) (p : Nat) (hp : p < 65536) (r : Bytes) :
    ∃ b : Nat, rdU8 (specProto isReq p ++ r) = .ok (b, if p ≥ 127 then u16le p ++ r else r)
      ∧ (b ≥ 128 ↔ isReq = true) ∧ (b % 128 = 0x7F ↔ p ≥ 127) ∧ (p < 127 → b % 128 = p) := by
  unfold specProto
  by_cases h : p ≥ 127
  · cases isReq <;> simp [h, rdU8] <;> omega
  · cases isReq <;> simp [h, rdU8] <;> omega

theorem decode_specEncode (s : Spec) (h : s.WF) : decode (specEncode s) = .ok (ofSpec s) := by
  cases s with
  | request p c m b =>
    obtain ⟨hp, hc, hm, hb⟩ := h
    obtain ⟨x, hx, hreq, h7f, hlt⟩ := rd_specProto true p hp (u32le c ++ u32le m ++ b)
    have hlen : (specProto true p).length ≤ 3 := by rw [specProto_length]; split <;> omega
    unfold decode specEncode specFrame
    rw [rdU32_u32le _ _ (by simp; omega)]
    simp only [List.append_assoc] at hx ⊢
    simp only [List.length_append, u32le_length, bind, Except.bind, pure, Except.pure]
    rw [if_neg (by omega)]
    rw [hx]
    by_cases h127 : p ≥ 127
    · have : x % 128 = 127 := h7f.mpr h127
      simp only [this, h127, if_true, rdU16_u16le _ _ hp]
      have hx128 : x ≥ 128 := hreq.mpr rfl
      simp only [hx128, if_true, rdU32_u32le _ _ hc, rdU32_u32le _ _ hm, ofSpec]
    · have hne : ¬ x % 128 = 127 := fun e => h127 (h7f.mp e)
      have hpx : x % 128 = p := hlt (by omega)
      simp only [hne, h127, if_false]
      have hx128 : x ≥ 128 := hreq.mpr rfl
      simp only [hx128, if_true, rdU32_u32le _ _ hc, rdU32_u32le _ _ hm, ofSpec, hpx]
  | success p c m b =>
    obtain ⟨hp, hc, hm, hb⟩ := h
    obtain ⟨x, hx, hreq, h7f, hlt⟩ := rd_specProto false p hp ([1] ++ u32le c ++ u32le (m + 32768) ++ b)
    have hlen : (specProto false p).length ≤ 3 := by rw [specProto_length]; split <;> omega
    have hx128 : ¬ x ≥ 128 := fun e => by have := hreq.mp e; cases this
    have hm' : m + 32768 < 4294967296 := by omega
    have hdiv : (m + 32768) / 32768 % 2 = 1 := by omega
    unfold decode specEncode specFrame
    rw [rdU32_u32le _ _ (by simp; omega)]
    simp only [List.append_assoc] at hx ⊢
    simp only [List.length_append, u32le_length, bind, Except.bind, pure, Except.pure]
    rw [if_neg (by simp <;> omega)]
    rw [hx]
    by_cases h127 : p ≥ 127
    · have : x % 128 = 127 := h7f.mpr h127
      simp only [this, h127, if_true, rdU16_u16le _ _ hp, hx128, if_false]
      simp [rdU8, rdU32_u32le _ _ hc, rdU32_u32le _ _ hm', ofSpec]; omega
    · have hne : ¬ x % 128 = 127 := fun e => h127 (h7f.mp e)
      have hpx : x % 128 = p := hlt (by omega)
      simp only [hne, h127, if_false, hx128]
      simp [rdU8, rdU32_u32le _ _ hc, rdU32_u32le _ _ hm', ofSpec, hpx]; omega
  | failure p c e =>
    obtain ⟨hp, hc, he1, he2⟩ := h
    obtain ⟨x, hx, hreq, h7f, hlt⟩ := rd_specProto false p hp ([0] ++ u32le e ++ u32le c)
    have hlen : (specProto false p).length ≤ 3 := by rw [specProto_length]; split <;> omega
    have hx128 : ¬ x ≥ 128 := fun e => by have := hreq.mp e; cases this
    unfold decode specEncode specFrame
    rw [rdU32_u32le _ _ (by simp; omega)]
    simp only [List.append_assoc] at hx ⊢
    simp only [List.length_append, u32le_length, bind, Except.bind, pure, Except.pure]
    rw [if_neg (by simp <;> omega)]
    rw [hx]
    by_cases h127 : p ≥ 127
    · have : x % 128 = 127 := h7f.mpr h127
      simp only [this, h127, if_true, rdU16_u16le _ _ hp, hx128, if_false]
      have := rdU32_u32le c [] hc
      simp only [List.append_nil] at this
      simp [rdU8, rdU32_u32le _ _ he2, this, ofSpec]
    · have hne : ¬ x % 128 = 127 := fun e => h127 (h7f.mp e)
      have hpx : x % 128 = p := hlt (by omega)
      simp only [hne, h127, if_false, hx128]
      have := rdU32_u32le c [] hc
      simp only [List.append_nil] at this
      simp [rdU8, rdU32_u32le _ _ he2, this, ofSpec, hpx]

theorem encProtocol_eq (isReq : Bool) (p : Nat) (hp : p < 65536) :
    encProtocol p (if isReq then 0x80 else 0) = .ok (specProto isReq p) := by
  unfold encProtocol specProto
  by_cases h : p < 127
  · have h' : ¬ p ≥ 127 := by omega
    cases isReq
    · simp [h, h', u8]
    · have : p ||| 128 = 128 + p := by
        have := or_two_pow_of_lt (b := p) 7 (by omega); simpa [Nat.add_comm] using this
      simp [h, h', u8, this]
  · have h' : p ≥ 127 := by omega
    cases isReq <;> simp [h, h', hp, u8]

theorem encProtocol_req (p : Nat) (hp : p < 65536) : encProtocol p 0x80 = .ok (specProto true p) := by
  simpa using encProtocol_eq true p hp

theorem encProtocol_resp (p : Nat) (hp : p < 65536) : encProtocol p 0 = .ok (specProto false p) := by
  simpa using encProtocol_eq false p hp

/-- the library's encoder produces exactly the reference framing -/
theorem encode_ofSpec (s : Spec) (h : s.WF) : encode (ofSpec s) = .ok (specEncode s) := by
  cases s with
  | request p c m b =>
    obtain ⟨hp, hc, hm, hb⟩ := h
    have hlen : (specProto true p).length ≤ 3 := by rw [specProto_length]; split <;> omega
    simp only [encode, ofSpec, if_true, encProtocol_req p hp, bind, Except.bind, hc, hm, and_self, pure, Except.pure,
      specEncode, specFrame, List.append_assoc]
    rw [if_pos (by simp <;> omega)]
  | success p c m b =>
    obtain ⟨hp, hc, hm, hb⟩ := h
    have hlen : (specProto false p).length ≤ 3 := by rw [specProto_length]; split <;> omega
    have hor : m ||| 32768 = m + 32768 := by
      have := or_two_pow_of_lt (b := m) 15 (by omega); simpa using this
    have h1 : ¬ ((1 : Nat) = 0) := by omega
    simp only [encode, ofSpec, h1, if_false, encProtocol_resp p hp, bind, Except.bind, pure, Except.pure,
      specEncode, specFrame, List.append_assoc, hasErrorBit, hor]
    rw [if_neg (by simp), if_pos hc, if_pos (by omega), if_pos (by simp <;> omega)]
    rfl
  | failure p c e =>
    obtain ⟨hp, hc, he1, he2⟩ := h
    have hlen : (specProto false p).length ≤ 3 := by rw [specProto_length]; split <;> omega
    have hbit : hasErrorBit (e : Int) = true := by
      unfold hasErrorBit
      have : (e : Int) ≠ -1 := by omega
      simp [this]
      omega
    have h1 : ¬ ((1 : Nat) = 0) := by omega
    simp only [encode, ofSpec, h1, if_false, encProtocol_resp p hp, bind, Except.bind, pure, Except.pure,
      specEncode, specFrame, List.append_assoc, hbit]
    have he0 : (0 : Int) ≤ e := by omega
    have he3 : (e : Int) < 4294967296 := by omega
    rw [if_pos trivial, if_pos ⟨he0, he3, hc⟩, if_pos (by simp <;> omega)]
    simp [u8, b8]

/-! ## strictness -/

theorem rdU32_ok_length {d s : Bytes} {l : Nat} (h : rdU32 d = .ok (l, s)) : d.length = s.length + 4 := by
  unfold rdU32 at h
  split at h
  · simp at h; simp [← h.2]
  · cases h

theorem rdU32_short {d : Bytes} (h : d.length < 4) : rdU32 d = .error .overflow := by
  unfold rdU32
  split
  · simp at h; omega
  · rfl

/-- a message is accepted only if its length prefix equals the number of bytes that follow -/
theorem decode_ok_prefix {d : Bytes} {m : Msg} (h : decode d = .ok m) :
    ∃ l s, rdU32 d = .ok (l, s) ∧ l = s.length := by
  unfold decode at h
  cases hr : rdU32 d with
  | error e => simp [hr, bind, Except.bind] at h
  | ok v =>
    obtain ⟨l, s⟩ := v
    refine ⟨l, s, rfl, ?_⟩
    have hl := rdU32_ok_length hr
    simp only [hr, bind, Except.bind] at h
    by_cases hne : l ≠ d.length - 4
    · simp [hne, throw, throwThe, MonadExceptOf.throw] at h
    · simp at hne; omega

theorem decode_prefix_mismatch {d s : Bytes} {l : Nat} (h : rdU32 d = .ok (l, s)) (hne : l ≠ s.length) :
    decode d = .error .value := by
  have hl := rdU32_ok_length h
  unfold decode
  simp only [h, bind, Except.bind]
  rw [if_pos (by omega)]
  rfl

/-- every proper prefix of a framed message is rejected -/
theorem decode_take_frame (payload : Bytes) (hn : payload.length < 4294967296) (k : Nat)
    (hk : k < (specFrame payload).length) : ∃ e, decode ((specFrame payload).take k) = .error e := by
  unfold specFrame at *
  by_cases h4 : k < 4
  · refine ⟨.overflow, ?_⟩
    unfold decode
    rw [rdU32_short (by simp; omega)]
    rfl
  · refine ⟨.value, ?_⟩
    have : (u32le payload.length ++ payload).take k = u32le payload.length ++ payload.take (k - 4) := by
      rw [List.take_append]; simp
      rw [List.take_of_length_le (by simp; omega)]
    rw [this]
    apply decode_prefix_mismatch (rdU32_u32le _ _ hn)
    simp at hk ⊢
    omega

/-- a framed message followed by anything is rejected -/
theorem decode_frame_append (payload extra : Bytes) (hn : payload.length < 4294967296) (hx : extra ≠ []) :
    decode (specFrame payload ++ extra) = .error .value := by
  unfold specFrame
  rw [List.append_assoc]
  apply decode_prefix_mismatch (rdU32_u32le _ _ hn)
  have : 0 < extra.length := List.length_pos_iff.mpr hx
  simp; omega

/-- an error response with trailing bytes (inside a consistent frame) is rejected -/
theorem decode_error_trailing (p c e : Nat) (extra : Bytes) (hp : p < 65536) (hc : c < 4294967296)
    (he : e < 4294967296) (hx : extra ≠ []) (hl : extra.length < 4294967000) :
    decode (specFrame (specProto false p ++ [0] ++ u32le e ++ u32le c ++ extra)) = .error .value := by
  obtain ⟨x, hx1, hreq, h7f, hlt⟩ := rd_specProto false p hp ([0] ++ u32le e ++ u32le c ++ extra)
  have hlen : (specProto false p).length ≤ 3 := by rw [specProto_length]; split <;> omega
  have hx128 : ¬ x ≥ 128 := fun e => by have := hreq.mp e; cases this
  have hemp : extra.isEmpty = false := by cases extra <;> simp_all
  unfold decode specFrame
  rw [rdU32_u32le _ _ (by simp; omega)]
  simp only [List.append_assoc] at hx1 ⊢
  simp only [List.length_append, u32le_length, bind, Except.bind, pure, Except.pure]
  rw [if_neg (by simp <;> omega)]
  rw [hx1]
  by_cases h127 : p ≥ 127
  · have : x % 128 = 127 := h7f.mpr h127
    simp only [this, h127, if_true, rdU16_u16le _ _ hp, hx128, if_false]
    simp [rdU8, rdU32_u32le _ _ he, rdU32_u32le _ _ hc, hemp]
    rfl
  · have hne : ¬ x % 128 = 127 := fun e => h127 (h7f.mp e)
    simp only [hne, h127, if_false, hx128]
    simp [rdU8, rdU32_u32le _ _ he, rdU32_u32le _ _ hc, hemp]
    rfl

end Nx.Rmc
