"""C07 — a transport whose WRITE fails for one particular peer (attacks for multi_session.run).

Datagram transports: correctly signed handshake requests from addresses the server's socket cannot send to (source port 0 and
the like: `sendto` raises OSError) arrive at every bound virtual port throughout the victims' sessions.
Stream transports: a third party sends a handshake request and resets its connection before the answer is written (hand-made
SYN + close), or is the ordinary client whose connection breaks at the server's 1st (answer to SYN) or 2nd (answer to CONNECT)
write. The failure of the write must stay inside the exception barrier: judged by the twin-run oracles of corr_C07 (victims
unchanged, nothing crashes, `serve` does not raise)."""
import anyio
import anyio.lowlevel

import multi_session as ms
from sim import quant
from c07_multiport import forge_syn
from nintendo.nex import prudp

UNSENDABLE = [("10.0.0.66", 0), ("10.0.0.67", 0), ("0.0.0.0", 40000)]


def _vp(x):
    return x if isinstance(x, int) else x[0]


def datagram_attack(cfg):
    def attack(sim, out, rng):
        net = sim.net
        out.injected = 0
        sock = out.transport.socket
        orig = sock.send
        bad = set(UNSENDABLE[:cfg.get("addrs", 2)])
        out.probe_addrs |= bad
        out.write_failures = 0

        async def send(data, addr):
            if addr in bad:
                await anyio.lowlevel.checkpoint_if_cancelled()
                # the attempted write is recorded (the model emits it), nothing is transmitted, the socket raises
                net.ntx += 1
                net.log.append(("tx", net.ntx, sim.now(), sock.addr, addr, bytes(data), ()))
                out.write_failures += 1
                raise OSError(22, "Invalid argument")
            return await orig(data, addr)
        sock.send = send
        versions = [0, 1] if out.spec.server_version == 2 else [out.spec.server_version]
        t = 0.03125
        k = 0
        while t < out.spec.rounds * 0.6 + 1.5:
            for vp in out.spec.vports:
                for addr in sorted(bad):
                    ver = versions[k % len(versions)]; k += 1
                    data = forge_syn(out.settings_s, ver, 1 + k % 15, _vp(vp))
                    sim.loop.call_later(quant(t), net.inject, addr, ms.SERVER, data, 0.0)
                    out.injected += 1
            t += cfg.get("every", 0.25)
    return attack


def stream_attack(cfg):
    """cfg: kind = "syn-close" | "break", at = 1 | 2 (which write of the server breaks), n = how many such peers, every = seconds"""
    def attack(sim, out, rng):
        out.injected = 0
        out.write_failures = 0
        broken = {}
        def stream_fate(local, remote, n, chunk):
            if local == ms.SERVER and remote in broken:
                broken[remote][0] += 1
                if broken[remote][0] == broken[remote][1]:
                    out.write_failures += 1
                    return "break"
            return "deliver"
        sim.net.stream_fate = stream_fate
        vport = _vp(out.spec.vports[cfg.get("vport_index", 0) % len(out.spec.vports)])

        async def one(j):
            listener = sim.stream_listeners.get(ms.SERVER)
            if listener is None:
                return
            addr = (ms.ATTACKER[0], ms.ATTACKER[1] + 10 + j)
            out.probe_addrs.add(addr)
            a, b = sim.net.stream_pair(addr, ms.SERVER)
            if cfg["kind"] == "syn-close":
                listener(b)
                await anyio.sleep(quant(0.004))
                await a.send(forge_syn(out.settings_s, 1, 20 + j, vport) * cfg.get("copies", 1)); out.injected += 1
                await a.close()                   # reset before the server has read (and answered) the request
                return
            broken[addr] = [0, cfg["at"]]
            listener(b)
            s = out.spec.settings(1)
            s["prudp.resend_timeout"] = 0.25; s["prudp.resend_limit"] = 1
            try:
                async with anyio.create_task_group() as group:
                    tr = prudp.PRUDPClientTransport(s, a, group)
                    tr.start()
                    out.injected += 1
                    try:
                        async with tr.connect(vport, 10) as client:
                            await client.send(b"HOSTILE")
                            await anyio.sleep(quant(0.25))
                    finally:
                        group.cancel_scope.cancel()
            except BaseException as e:
                if isinstance(e, anyio.get_cancelled_exc_class()):
                    raise
            finally:
                await a.close()

        async def hostile():
            await anyio.sleep(quant(cfg.get("start", 0.0625)))
            for j in range(cfg.get("n", 4)):
                sim.loop.create_task(one(j))
                await anyio.sleep(quant(cfg.get("every", 0.3125)))
        sim.loop.create_task(hostile())
    return attack
