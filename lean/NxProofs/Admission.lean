import NxProofs.Negotiation
import NxModel.Prudp.L1Crypto
/-! C05: a keyed server admits exactly the requests its login check accepts -/
namespace Nx.L1
open Nx Nx.Prudp

/-- the checks of `process_connect` that precede the login step -/
def connectPrecheck (env : Env) (s : ServerStream) (p : Packet) (addr : Addr) : Prop :=
  p.signature = env.packetSig (select env.cfg.sel p.version) p [] (env.connSig (select env.cfg.sel p.version) addr) ∧
  ¬ ((!hasNeedAck p.flags) = true ∨ p.packetId ≠ 1 ∨ p.fragmentId ≠ 0 ∨ p.substreamId ≠ 0) ∧
  ¬ (p.maxSubstreamId > s.maxSub ∨ p.minorVersion > s.minorVer ∨ (p.supportedFunctions ^^^ (p.supportedFunctions &&& s.supFuncs)) ≠ 0)

/-- **rejection creates nothing**: if the login request is refused, the server is exactly as before and says nothing -/
theorem connect_login_refused (env : Env) (now : Time) (rnd : Rnd) (up : Bool) (s : ServerStream) (p : Packet) (addr : Addr)
    (key : Bytes) (hk : s.key = some key) (e : Err) (hl : env.loginRequest p.payload key now = .error e) :
    (s.processConnect env now rnd up p addr).s = s ∧ (s.processConnect env now rnd up p addr).outs = [] ∧
    (s.processConnect env now rnd up p addr).err.isSome := by
  unfold ServerStream.processConnect
  simp only []
  split
  · exact ⟨rfl, rfl, rfl⟩
  · split
    · exact ⟨rfl, rfl, rfl⟩
    · split
      · exact ⟨rfl, rfl, rfl⟩
      · simp only [ServerStream.loginStep, hk, hl]
        exact ⟨trivial, trivial, rfl⟩

/-- **admission**: a new peer whose CONNECT passes the pre-checks and whose login request is accepted is registered:
    the registered connection carries the ticket's user id and session key and the connection id of the request,
    is CONNECTED, and the handler is started -/
theorem connect_admits (env : Env) (now : Time) (rnd : Rnd) (up : Bool) (s : ServerStream) (p : Packet) (addr : Addr)
    (key : Bytes) (hk : s.key = some key) (hpre : connectPrecheck env s p addr)
    (hnew : clientLookup (addr, p.sourcePort, p.sourceType) s.clients = none)
    (pid cid : Nat) (sk resp : Bytes) (hl : env.loginRequest p.payload key now = .ok (pid, cid, sk, resp)) :
    (∃ c, clientLookup (addr, p.sourcePort, p.sourceType) (s.processConnect env now rnd up p addr).s.clients = some c ∧
      c.userPid = some pid ∧ c.userCid = some cid ∧ c.sessionKey = sk ∧ c.state = STATE_CONNECTED) ∧
    SOut.started (addr, p.sourcePort, p.sourceType) ∈ (s.processConnect env now rnd up p addr).outs := by
  obtain ⟨h1, h2, h3⟩ := hpre
  unfold ServerStream.processConnect
  simp only []
  rw [if_neg (by simpa using h1), if_neg h2, if_neg h3]
  simp only [ServerStream.loginStep, hnew, hk, hl, Option.isNone_none, if_true]
  refine ⟨⟨_, clientLookup_set_same _ _ _, rfl, rfl, rfl, rfl⟩, ?_⟩
  by_cases hup : (!up) = true
  · simp [hup]
  · simp only [hup, Bool.false_eq_true, if_false]
    cases encodeChecked env.cfg _ with
    | error e => simp
    | ok data => simp

/-- a retransmitted or replayed CONNECT for an established peer never changes who that peer is
    (user id, session key, cipher state, sequence state): the connection object stays the same -/
theorem connect_replay_keeps_identity (env : Env) (now : Time) (rnd : Rnd) (up : Bool) (s : ServerStream) (p : Packet) (addr : Addr)
    (c : Conn) (hex : clientLookup (addr, p.sourcePort, p.sourceType) s.clients = some c) :
    (s.processConnect env now rnd up p addr).s = s := by
  obtain ⟨skey, sf, ms, mv, ad, po, ty, cl⟩ := s
  unfold ServerStream.processConnect
  simp only [] at hex ⊢
  split
  · rfl
  · split
    · rfl
    · split
      · rfl
      · simp only [ServerStream.loginStep, hex, Option.isNone_some, Bool.false_eq_true, if_false]
        cases skey with
        | none => rfl
        | some key =>
          simp only []
          cases env.loginRequest p.payload key now with
          | error e => rfl
          | ok v => rfl

/-- the client accepts a connection response iff it is exactly `u32 4 ‖ u32 (check+1 mod 2^32)` (with credentials)
    resp. empty (without) -/
theorem client_response_check (c : Conn) (data : Bytes) :
    c.checkConnectionResponse data = none ↔
      (match c.credentials with
       | some _ => data = u32le 4 ++ u32le ((c.connectionCheck + 1) % 4294967296)
       | none => data = []) := by
  unfold Conn.checkConnectionResponse
  cases c.credentials with
  | none =>
    simp only []
    constructor
    · intro h; split at h
      · rename_i he; cases data with
        | nil => rfl
        | cons _ _ => simp at he
      · cases h
    · intro h; subst h; simp
  | some cr =>
    simp only []
    constructor
    · intro h
      split at h
      · cases h
      · split at h
        · cases h
        · split at h
          · cases h
          · rename_i h1 h2 h3
            have hlen : data.length = 8 := by omega
            match data, hlen with
            | [a, b, c', d, e, f, g, i], _ =>
              simp only [List.take, List.drop, n32le] at h2 h3
              simp only [u32le, List.cons_append, List.nil_append, List.cons.injEq, and_true]
              have ha := a.toNat_lt; have hb := b.toNat_lt; have hc := c'.toNat_lt; have hd := d.toNat_lt
              have he := e.toNat_lt; have hf := f.toNat_lt; have hg := g.toNat_lt; have hi := i.toNat_lt
              simp only [Decidable.not_not] at h2 h3
              refine ⟨?_, ?_, ?_, ?_, ?_, ?_, ?_, ?_⟩ <;>
                (apply UInt8.toNat_inj.mp; simp [b8, UInt8.toNat_ofNat']; omega)
    · intro h
      subst h
      simp [u32le, n32le, b8, UInt8.toNat_ofNat']
      omega

end Nx.L1

namespace Nx.L1
open Nx Nx.Prudp

/-- what an accepted login request proves about the CONNECT payload (the concrete `process_login_request`):
    two buffers; the first decrypts under the server's ticket key to (timestamp, source, session key); the ticket is
    not older than 120 s; the second decrypts under *that* session key to exactly `pidSize + 8` bytes whose user id
    equals the ticket's; the admitted identity and key are the ticket's; the response is `4 ‖ check+1` -/
theorem login_accept_implies (kc : Nex.Kerberos.Cfg) (epoch : Nat) (tz : Int) (data key : Bytes) (now : Time)
    (pid cid : Nat) (sk resp : Bytes)
    (h : loginRequestFn kc epoch tz data key now = .ok (pid, cid, sk, resp)) :
    ∃ td r1 rd r2 ticket ts dec r3 r4 r5 check,
      Nex.rBuffer data = .ok (td, r1) ∧ Nex.rBuffer r1 = .ok (rd, r2) ∧
      Nex.Kerberos.ServerTicket.decrypt kc key td = .ok ticket ∧
      Nex.DateTime.timestamp tz ticket.timestamp = .ok ts ∧
      ¬ ((ts + 120 - (epoch : Int)) * 1073741824 < (now : Int)) ∧
      Nex.Kerberos.decrypt ticket.sessionKey rd = .ok dec ∧ dec.length = kc.pidSize + 8 ∧
      Nex.rPid kc.pidSize dec = .ok (pid, r3) ∧ pid = ticket.source ∧ sk = ticket.sessionKey ∧
      rdU32 r3 = .ok (cid, r4) ∧ rdU32 r4 = .ok (check, r5) ∧
      resp = u32le 4 ++ u32le ((check + 1) % 4294967296) := by
  unfold loginRequestFn at h
  simp only [bind, Except.bind, pure, Except.pure] at h
  cases h1 : Nex.rBuffer data with
  | error e => simp [h1] at h
  | ok v1 =>
    obtain ⟨td, r1⟩ := v1
    simp only [h1] at h
    cases h2 : Nex.rBuffer r1 with
    | error e => simp [h2] at h
    | ok v2 =>
      obtain ⟨rd, r2⟩ := v2
      simp only [h2] at h
      cases h3 : Nex.Kerberos.ServerTicket.decrypt kc key td with
      | error e => simp [h3] at h
      | ok ticket =>
        simp only [h3] at h
        cases h4 : Nex.DateTime.timestamp tz ticket.timestamp with
        | error e => simp [h4] at h
        | ok ts =>
          simp only [h4] at h
          by_cases h5 : (ts + 120 - (epoch : Int)) * 1073741824 < (now : Int)
          · simp [h5, throw, throwThe, MonadExceptOf.throw] at h
          · simp only [h5, if_false] at h
            cases h6 : Nex.Kerberos.decrypt ticket.sessionKey rd with
            | error e => simp [h6] at h
            | ok dec =>
              simp only [h6] at h
              by_cases h7 : dec.length ≠ kc.pidSize + 8
              · simp [h7, throw, throwThe, MonadExceptOf.throw] at h
              · simp only [h7, if_false] at h
                cases h8 : Nex.rPid kc.pidSize dec with
                | error e => simp [h8] at h
                | ok v8 =>
                  obtain ⟨p8, r3⟩ := v8
                  simp only [h8] at h
                  by_cases h9 : p8 ≠ ticket.source
                  · simp [h9, throw, throwThe, MonadExceptOf.throw] at h
                  · simp only [h9, if_false] at h
                    cases h10 : rdU32 r3 with
                    | error e => simp [h10] at h
                    | ok v10 =>
                      obtain ⟨c10, r4⟩ := v10
                      simp only [h10] at h
                      cases h11 : rdU32 r4 with
                      | error e => simp [h11] at h
                      | ok v11 =>
                        obtain ⟨chk, r5⟩ := v11
                        simp only [h11, Except.ok.injEq, Prod.mk.injEq] at h
                        obtain ⟨e1, e2, e3, e4⟩ := h
                        have h7' : dec.length = kc.pidSize + 8 := by simpa using h7
                        have h9' : p8 = ticket.source := by simpa using h9
                        refine ⟨td, r1, rd, r2, ticket, ts, dec, r3, r4, r5, chk, rfl, h2, h3, h4, h5, h6, h7', ?_, ?_, e3.symm, ?_, h11, e4.symm⟩
                        · rw [h8, h9', e1]
                        · exact e1.symm
                        · rw [h10, e2]

end Nx.L1
