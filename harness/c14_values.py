"""C14 value generation on top of schema_values.Gen: a mode in which EVERY string-valued position (string arguments and
results, structure fields, list / map elements and keys, station URLs, variant strings, strings inside anydata) holds
non-ASCII content — 2-, 3- and 4-byte UTF-8 sequences (astral characters included), at the start / end / alone, and
strings whose byte length crosses a boundary (255/256) that their character count does not.

A second mode (`big`) makes buffers, strings and top-level lists large enough that the RMC message carrying them is split
into several PRUDP fragments (fragment size 1300 by default, 962 in the 3ds / friends profiles)."""
import schema_values as SV
from schema_proto2lean import BASIC

# code points at the edges of the UTF-8 length classes, plus common real-world text
NA_BOUND = [
    "\u00e9", "Caf\u00e9", "\u00e9t\u00e9", "\u00f1and\u00fa \u00fc\u00df",                      # 2-byte
    "\u0080", "\u07ff", "\u0800", "\uffff", "\U00010000", "\U0010ffff",                  # UTF-8 length class boundaries
    "\u65e5\u672c\u8a9e", "Mii\u2605Maker", "\u30de\u30ea\u30aa", "\uff2e\uff49\uff4e",            # 3-byte
    "\U0001f600", "a\U0001f600", "\U0001f600a", "\U0001d11e\U0001f3b5",                   # 4-byte (astral)
    "x\U0001f468\u200d\U0001f469\u200d\U0001f467y", "e\u0301", "\u00a0",                   # ZWJ sequence, combining mark, NBSP
    "\u0395\u03bb\u03bb\u03b7\u03bd\u03b9\u03ba\u03ac", "\u05e9\u05dc\u05d5\u05dd", "\u0645\u0631\u062d\u0628\u0627",
    "\u3042" * 100, "\u00e9" * 200, "a" * 253 + "\u00e9", "\u00e9" + "a" * 253, "\U0001f3ae" * 70,  # byte length crosses 255/256
]
NA_ALPHABET = "ab Z09_-" + "äéøßł" + "中日マ★€ह" + "\U0001f600\U0001d11e\U00020000"
NA_CHARS = [c for c in NA_ALPHABET if ord(c) > 127]

# str(StationURL.parse(u)) == u for all of these (no ":/" "=" ";" inside keys / values)
NA_URLS = [
    "prudp:/address=例え.jp;port=60000;sid=1",
    "prudps:/address=192.168.1.20;port=443;Uri=/café/★;Rsa=\U0001f600",
    "udp:/Ra=é;PID=1234;CID=7",
    "prudp:/address=\U0001d11e\U0001f3b5.example;port=1;stream=10;type=2;Ntrpa=ñ",
    "prudp:/キー=値",
    "ürl:/address=a;port=2",
]


# sizes around the shipped fragment sizes (962, 1300) and multiples of them, and well beyond
BIG_SIZES = [900, 961, 962, 963, 1299, 1300, 1301, 1924, 2600, 3000, 3900, 5200, 9000]


def is_non_ascii(s):
    return any(ord(c) > 127 for c in s)


class Gen14(SV.Gen):
    def __init__(self, env, rng):
        super().__init__(env, rng)
        self.nonascii = False
        self.big = False
        self.big_left = 0            # bytes of large content still to hand out in this value set
        self._stringy = {}

    # ---- does a type contain a string-valued position?
    def stringy(self, t, seen=()):
        n = t["name"]
        if n in ("string", "stationurl", "variant", "anydata"): return True
        if n in ("list", "map"): return any(self.stringy(x, seen) for x in t["template"])
        if n in BASIC: return False
        if n in self._stringy: return self._stringy[n]
        if n in seen: return False
        try:
            r = any(self.stringy(v["type"], seen + (n,)) for v, _ in self.fields(n))
        except KeyError:
            r = False
        if not seen: self._stringy[n] = r
        return r

    def method_stringy(self, m):
        return any(self.stringy(v["type"]) for v in m["request"] + m["response"])

    # ---- generation
    def string(self):
        if not self.nonascii: return super().string()
        r = self.rng
        if r.random() < 0.55: return r.choice(NA_BOUND)
        k = r.randint(1, 24)
        s = [r.choice(NA_ALPHABET) for _ in range(k)]
        s[r.choice([0, k - 1, r.randrange(k)])] = r.choice(NA_CHARS)      # at least one multi-byte character
        return "".join(s)

    def start_big(self, budget=14000):
        self.big, self.big_left = True, budget

    def gen(self, t, cfg, depth=0, required=False):
        if self.big and self.big_left > 0:
            n = t["name"]; r = self.rng
            if n in ("buffer", "qbuffer"):
                k = r.choice(BIG_SIZES); self.big_left -= k
                return ("bytes", r.randbytes(k))
            if n == "string" and r.random() < 0.7:
                k = r.choice([1000, 1400, 2700]); self.big_left -= 2 * k
                return ("str", "".join(r.choice(NA_ALPHABET if self.nonascii else "abcdefghij KLMNOP0123456789_-") for _ in range(k)))
            if n == "list" and depth == 0 and r.random() < 0.8:
                k = r.randint(24, 60); self.big_left -= 1500
                return ("list", [self.gen(t["template"][0], cfg, depth + 1, True) for _ in range(k)])
        if self.nonascii:
            n = t["name"]
            if n == "string": return ("str", self.string())
            if n == "stationurl": return ("url", self.rng.choice(NA_URLS))
            if n == "variant" and self.rng.random() < 0.6: return ("str", self.string())
        return super().gen(t, cfg, depth, required)
