import NxModel.Nex.RmcClient
/-! proofs about the RMC client call-matching model: the implementation refines the per-call spec -/
namespace Nx.RmcClient
open Nx Nx.Rmc

/-! ## dictionary lemmas -/
section dict
variable {α : Type}

@[simp] theorem dlookup_derase_self (k : Nat) (d : List (Nat × α)) : dlookup k (derase k d) = none := by
  induction d with
  | nil => rfl
  | cons p r ih =>
    obtain ⟨k', v⟩ := p
    by_cases h : k' = k <;> simp [derase, dlookup, h, ih]

theorem dlookup_derase_ne {k k' : Nat} (h : k' ≠ k) (d : List (Nat × α)) : dlookup k' (derase k d) = dlookup k' d := by
  induction d with
  | nil => rfl
  | cons p r ih =>
    obtain ⟨k'', v⟩ := p
    by_cases h1 : k'' = k
    · have : k'' ≠ k' := by omega
      simp [derase, dlookup, h1, ih]; intro e; omega
    · by_cases h2 : k'' = k' <;> simp [derase, dlookup, h1, h2, ih, h]

@[simp] theorem dlookup_dset_self (k : Nat) (v : α) (d : List (Nat × α)) : dlookup k (dset k v d) = some v := by
  simp [dset, dlookup]

theorem dlookup_dset_ne {k k' : Nat} (h : k' ≠ k) (v : α) (d : List (Nat × α)) :
    dlookup k' (dset k v d) = dlookup k' d := by
  have : k ≠ k' := fun e => h e.symm
  simp [dset, dlookup, this, dlookup_derase_ne h]

theorem mem_derase {k : Nat} {d : List (Nat × α)} {p : Nat × α} (h : p ∈ derase k d) : p ∈ d := by
  induction d with
  | nil => simp [derase] at h
  | cons q r ih =>
    obtain ⟨k', v⟩ := q
    by_cases h1 : k' = k
    · simp [derase, h1] at h; exact List.mem_cons_of_mem _ (ih h)
    · simp [derase, h1] at h
      rcases h with h | h
      · simp [h]
      · exact List.mem_cons_of_mem _ (ih h)

theorem mem_of_dlookup {k : Nat} {d : List (Nat × α)} {v : α} (h : dlookup k d = some v) : (k, v) ∈ d := by
  induction d with
  | nil => simp [dlookup] at h
  | cons q r ih =>
    obtain ⟨k', v'⟩ := q
    by_cases h1 : k' = k
    · simp [dlookup, h1] at h; simp [h1, h]
    · simp [dlookup, h1] at h; exact List.mem_cons_of_mem _ (ih h)

end dict

/-! ## frames of the implementation = calls of the spec -/
def proj (c : SCall) : Nat × Nat := (c.task, c.id)

theorem dlookup_proj (t : Nat) (l : List SCall) : dlookup t (l.map proj) = (sfind t l).map (·.id) := by
  induction l with
  | nil => rfl
  | cons c r ih => by_cases h : c.task = t <;> simp [dlookup, sfind, proj, h] <;> simpa [proj] using ih

theorem derase_proj (t : Nat) (l : List SCall) : derase t (l.map proj) = (l.filter (·.task ≠ t)).map proj := by
  induction l with
  | nil => rfl
  | cons c r ih => by_cases h : c.task = t <;> simp [derase, proj, h] <;> simpa [proj] using ih

theorem sfind_some {t : Nat} {l : List SCall} {c : SCall} (h : sfind t l = some c) : c ∈ l ∧ c.task = t := by
  induction l with
  | nil => simp [sfind] at h
  | cons a r ih =>
    by_cases h1 : a.task = t
    · simp [sfind, h1] at h; subst h; simp [h1]
    · simp [sfind, h1] at h; have := ih h; simp [this]

theorem sfind_none {t : Nat} {l : List SCall} (h : sfind t l = none) : ∀ c ∈ l, c.task ≠ t := by
  induction l with
  | nil => simp
  | cons a r ih =>
    by_cases h1 : a.task = t
    · simp [sfind, h1] at h
    · simp [sfind, h1] at h; intro c hc; rcases List.mem_cons.mp hc with rfl | hc
      · exact h1
      · exact ih h c hc

/-- the spec's reaction to a response -/
def upd (m : Msg) (c : SCall) : SCall := if c.id = m.callId ∧ c.resp = none then { c with resp := some m } else c

@[simp] theorem upd_task (m : Msg) (c : SCall) : (upd m c).task = c.task := by unfold upd; split <;> rfl
@[simp] theorem upd_id (m : Msg) (c : SCall) : (upd m c).id = c.id := by unfold upd; split <;> rfl
@[simp] theorem proj_upd (m : Msg) (c : SCall) : proj (upd m c) = proj c := by simp [proj]

theorem map_proj_upd (m : Msg) (l : List SCall) : (l.map (upd m)).map proj = l.map proj := by
  simp [List.map_map, Function.comp_def]

/-! ## the simulation relation -/
structure Base (s : State) (a : CallSpec) : Prop where
  nextId : s.nextId = a.nextId
  nextTask : s.nextTask = a.nextTask
  closed : s.closed = a.closed
  frames : s.frames = a.calls.map proj

/-- holds as long as the connection is open -/
structure Open (s : State) (a : CallSpec) : Prop where
  tasksLt : ∀ c ∈ a.calls, c.task < a.nextTask
  firedLt : ∀ t ∈ s.fired, t < a.nextTask
  reqsLt : ∀ p ∈ s.requests, p.2 < a.nextTask
  tasksInj : ∀ c1 ∈ a.calls, ∀ c2 ∈ a.calls, c1.task = c2.task → c1 = c2
  idsInj : ∀ c1 ∈ a.calls, ∀ c2 ∈ a.calls, c1.id = c2.id → c1 = c2
  pending : ∀ c ∈ a.calls, c.resp = none → dlookup c.id s.requests = some c.task ∧ c.task ∉ s.fired
  answered : ∀ c ∈ a.calls, ∀ m, c.resp = some m →
    dlookup c.id s.responses = some m ∧ dlookup c.id s.requests = none ∧ c.task ∈ s.fired
  reqs : ∀ i t, dlookup i s.requests = some t → ∃ c ∈ a.calls, c.id = i ∧ c.task = t ∧ c.resp = none

structure Rel (s : State) (a : CallSpec) : Prop where
  base : Base s a
  opn : s.closed = false → Open s a
  cls : s.closed = true → ∀ c ∈ a.calls, c.task ∈ s.fired

theorem rel_init (n : Nat) : Rel { init with nextId := n } { CallSpec.init with nextId := n } := by
  refine ⟨⟨rfl, rfl, rfl, rfl⟩, fun _ => ?_, fun h => by simp [init] at h⟩
  constructor <;> simp [init, CallSpec.init, dlookup]

def obs (l : List Out) : List Out := l.filter Out.observable

/-- the fresh id of a registering call differs from the ids of all outstanding calls -/
def FreshId (s : State) : Op → Prop
  | .call false => s.closed = false → ∀ p ∈ s.frames, p.2 ≠ s.nextId
  | _ => True

theorem freshId_of_distinctLive (s : State) (op : Op) (ops : List Op) (h : distinctLive s (op :: ops) = true) :
    FreshId s op ∧ distinctLive (step s op).1 ops = true := by
  simp only [distinctLive, Bool.and_eq_true] at h
  refine ⟨?_, h.2⟩
  cases op with
  | call nr =>
    cases nr with
    | true => trivial
    | false =>
      intro hc p hp
      have h1 := h.1
      simp only [hc, Bool.false_or, Bool.not_eq_true', List.contains_eq_mem, decide_eq_false_iff_not] at h1
      intro e
      exact h1 (List.mem_map.mpr ⟨p, hp, e⟩)
  | _ => trivial

/-! ### closed connection: every op keeps `Base`, `closed` and "every outstanding call's event is set" -/
theorem step_closed {s : State} {a : CallSpec} (hb : Base s a) (hc : s.closed = true)
    (hf : ∀ c ∈ a.calls, c.task ∈ s.fired) (op : Op) :
    Rel (step s op).1 (CallSpec.step a op).1 ∧ obs (step s op).2 = (CallSpec.step a op).2 := by
  have hca : a.closed = true := by rw [← hb.closed]; exact hc
  cases op with
  | call nr =>
    simp only [step, CallSpec.step, hc, hca, if_true, hb.nextTask]
    exact ⟨⟨⟨hb.nextId, rfl, rfl, hb.frames⟩, fun h => by simp at h, fun _ => hf⟩, by simp [obs, Out.observable]⟩
  | recvResponse m =>
    simp only [step, CallSpec.step]
    cases hl : dlookup m.callId s.requests with
    | none =>
      refine ⟨⟨⟨hb.nextId, hb.nextTask, hb.closed, ?_⟩, fun h => by simp [hc] at h, ?_⟩, by simp [obs, Out.observable]⟩
      · show s.frames = (a.calls.map _).map proj
        rw [hb.frames]; exact (map_proj_upd m a.calls).symm
      · intro _ c hcm
        obtain ⟨c0, hc0, rfl⟩ := List.mem_map.mp hcm
        have := hf c0 hc0
        show (if c0.id = m.callId ∧ c0.resp = none then { c0 with resp := some m } else c0).task ∈ s.fired
        split <;> exact this
    | some t =>
      refine ⟨⟨⟨hb.nextId, hb.nextTask, hb.closed, ?_⟩, fun h => by simp [hc] at h, ?_⟩, by simp [obs, Out.observable]⟩
      · show s.frames = (a.calls.map _).map proj
        rw [hb.frames]; exact (map_proj_upd m a.calls).symm
      · intro _ c hcm
        obtain ⟨c0, hc0, rfl⟩ := List.mem_map.mp hcm
        have := hf c0 hc0
        show (if c0.id = m.callId ∧ c0.resp = none then { c0 with resp := some m } else c0).task ∈ t :: s.fired
        split <;> exact List.mem_cons_of_mem _ this
  | recvRequest =>
    exact ⟨⟨hb, fun h => by simp [step, hc] at h, fun _ => hf⟩, by simp [step, CallSpec.step, obs]⟩
  | eof =>
    have : ({ a with closed := true } : CallSpec) = a := by cases a; simp_all
    simp only [step, doCleanup, hc, if_true, CallSpec.step, this]
    exact ⟨⟨hb, fun h => by simp [hc] at h, fun _ => hf⟩, by simp [obs]⟩
  | cleanup =>
    have : ({ a with closed := true } : CallSpec) = a := by cases a; simp_all
    simp only [step, doCleanup, hc, if_true, CallSpec.step, this]
    exact ⟨⟨hb, fun h => by simp [hc] at h, fun _ => hf⟩, by simp [obs]⟩
  | wake t =>
    simp only [step, CallSpec.step]
    rw [hb.frames, dlookup_proj]
    cases hs : sfind t a.calls with
    | none =>
      simp only [Option.map_none]
      exact ⟨⟨hb, fun h => by simp [hc] at h, fun _ => hf⟩, by simp [obs, Out.observable]⟩
    | some c =>
      obtain ⟨hcm, hct⟩ := sfind_some hs
      have htf : t ∈ s.fired := hct ▸ hf c hcm
      simp only [Option.map_some, htf, if_true, hc, hca]
      refine ⟨⟨⟨hb.nextId, hb.nextTask, rfl, derase_proj t a.calls⟩, fun h => by simp at h, ?_⟩, by simp [obs, Out.observable]⟩
      · intro _ c' hc'
        exact hf c' (List.mem_filter.mp hc').1

/-! ### open connection -/
theorem step_open_call_noresp {s : State} {a : CallSpec} (hb : Base s a) (hc : s.closed = false) (ho : Open s a) :
    Rel (step s (.call true)).1 (CallSpec.step a (.call true)).1 ∧
      obs (step s (.call true)).2 = (CallSpec.step a (.call true)).2 := by
  have hca : a.closed = false := by rw [← hb.closed]; exact hc
  simp only [step, CallSpec.step, hc, hca, Bool.false_eq_true, if_false, if_true, hb.nextTask, hb.nextId]
  refine ⟨⟨⟨rfl, rfl, rfl, hb.frames⟩, fun _ => ?_, fun h => by simp at h⟩, by simp [obs, Out.observable]⟩
  exact { tasksLt := fun c h => Nat.lt_succ_of_lt (ho.tasksLt c h)
          firedLt := fun t h => Nat.lt_succ_of_lt (ho.firedLt t h)
          reqsLt := fun p h => Nat.lt_succ_of_lt (ho.reqsLt p h)
          tasksInj := ho.tasksInj, idsInj := ho.idsInj, pending := ho.pending, answered := ho.answered, reqs := ho.reqs }

theorem step_open_call {s : State} {a : CallSpec} (hb : Base s a) (hc : s.closed = false) (ho : Open s a)
    (hfresh : ∀ p ∈ s.frames, p.2 ≠ s.nextId) :
    Rel (step s (.call false)).1 (CallSpec.step a (.call false)).1 ∧
      obs (step s (.call false)).2 = (CallSpec.step a (.call false)).2 := by
  have hca : a.closed = false := by rw [← hb.closed]; exact hc
  have hfr : ∀ c ∈ a.calls, c.id ≠ a.nextId := by
    intro c hcm
    have := hfresh (proj c) (by rw [hb.frames]; exact List.mem_map.mpr ⟨c, hcm, rfl⟩)
    rw [hb.nextId] at this; exact this
  simp only [step, CallSpec.step, hc, hca, Bool.false_eq_true, if_false, hb.nextTask, hb.nextId]
  refine ⟨⟨⟨rfl, rfl, rfl, ?_⟩, fun _ => ?_, fun h => by simp at h⟩, by simp [obs, Out.observable]⟩
  · simp [hb.frames, proj]
  · constructor
    · intro c h
      rcases List.mem_cons.mp h with rfl | h
      · exact Nat.lt_succ_self _
      · exact Nat.lt_succ_of_lt (ho.tasksLt c h)
    · exact fun t h => Nat.lt_succ_of_lt (ho.firedLt t h)
    · intro p h
      rcases List.mem_cons.mp h with rfl | h
      · exact Nat.lt_succ_self _
      · exact Nat.lt_succ_of_lt (ho.reqsLt p (mem_derase h))
    · intro c1 h1 c2 h2 e
      rcases List.mem_cons.mp h1 with rfl | h1 <;> rcases List.mem_cons.mp h2 with rfl | h2
      · rfl
      · have := ho.tasksLt c2 h2; simp at e; omega
      · have := ho.tasksLt c1 h1; simp at e; omega
      · exact ho.tasksInj c1 h1 c2 h2 e
    · intro c1 h1 c2 h2 e
      rcases List.mem_cons.mp h1 with rfl | h1 <;> rcases List.mem_cons.mp h2 with rfl | h2
      · rfl
      · exact absurd e.symm (hfr c2 h2)
      · exact absurd e (hfr c1 h1)
      · exact ho.idsInj c1 h1 c2 h2 e
    · intro c h hr
      rcases List.mem_cons.mp h with rfl | h
      · refine ⟨by simp, fun hm => ?_⟩
        have := ho.firedLt _ hm; simp at this
      · have hne := hfr c h
        rw [dlookup_dset_ne hne]
        exact ho.pending c h hr
    · intro c h m hr
      rcases List.mem_cons.mp h with rfl | h
      · simp at hr
      · have hne := hfr c h
        rw [dlookup_dset_ne hne]
        exact ho.answered c h m hr
    · intro i t hl
      by_cases hi : i = a.nextId
      · subst hi
        simp at hl
        exact ⟨_, List.mem_cons_self, rfl, hl, rfl⟩
      · rw [dlookup_dset_ne hi] at hl
        obtain ⟨c, hcm, h1, h2, h3⟩ := ho.reqs i t hl
        exact ⟨c, List.mem_cons_of_mem _ hcm, h1, h2, h3⟩

theorem step_open_response {s : State} {a : CallSpec} (hb : Base s a) (hc : s.closed = false) (ho : Open s a)
    (m : Msg) :
    Rel (step s (.recvResponse m)).1 (CallSpec.step a (.recvResponse m)).1 ∧
      obs (step s (.recvResponse m)).2 = (CallSpec.step a (.recvResponse m)).2 := by
  simp only [step, CallSpec.step]
  have hmap : (a.calls.map fun c => if c.id = m.callId ∧ c.resp = none then { c with resp := some m } else c)
      = a.calls.map (upd m) := rfl
  rw [hmap]
  cases hl : dlookup m.callId s.requests with
  | none =>
    -- unknown or duplicate id: nothing changes on either side
    have hid : a.calls.map (upd m) = a.calls := by
      conv => rhs; rw [← List.map_id a.calls]
      apply List.map_congr_left
      intro c hcm
      unfold upd
      split
      · rename_i h
        have := (ho.pending c hcm h.2).1
        rw [h.1, hl] at this; cases this
      · rfl
    rw [hid]
    exact ⟨⟨hb, fun _ => ho, fun h => by simp [hc] at h⟩, by simp [obs, Out.observable]⟩
  | some t =>
    obtain ⟨c, hcm, hci, hct, hcr⟩ := ho.reqs _ _ hl
    refine ⟨⟨⟨hb.nextId, hb.nextTask, hb.closed, ?_⟩, fun _ => ?_, fun h => by simp [hc] at h⟩, by simp [obs, Out.observable]⟩
    · show s.frames = (a.calls.map (upd m)).map proj
      rw [map_proj_upd]; exact hb.frames
    · constructor
      · intro c' h
        obtain ⟨c0, h0, rfl⟩ := List.mem_map.mp h
        simpa using ho.tasksLt c0 h0
      · intro t' h
        rcases List.mem_cons.mp h with rfl | h
        · rw [← hct]; exact ho.tasksLt c hcm
        · exact ho.firedLt t' h
      · exact fun p h => ho.reqsLt p (mem_derase h)
      · intro c1 h1 c2 h2 e
        obtain ⟨d1, g1, rfl⟩ := List.mem_map.mp h1
        obtain ⟨d2, g2, rfl⟩ := List.mem_map.mp h2
        simp at e
        rw [ho.tasksInj d1 g1 d2 g2 e]
      · intro c1 h1 c2 h2 e
        obtain ⟨d1, g1, rfl⟩ := List.mem_map.mp h1
        obtain ⟨d2, g2, rfl⟩ := List.mem_map.mp h2
        simp at e
        rw [ho.idsInj d1 g1 d2 g2 e]
      · -- still pending after the response: a call with another id
        intro c' h hr
        obtain ⟨c0, h0, rfl⟩ := List.mem_map.mp h
        have hne : c0.id ≠ m.callId := by
          intro e
          have : c0.resp = none := by
            cases hr0 : c0.resp with
            | none => rfl
            | some x => simp [upd, hr0] at hr
          simp [upd, e, this] at hr
        have hsame : upd m c0 = c0 := by simp [upd, hne]
        rw [hsame] at hr ⊢
        obtain ⟨p1, p2⟩ := ho.pending c0 h0 hr
        refine ⟨by rw [dlookup_derase_ne hne]; exact p1, fun hm => ?_⟩
        rcases List.mem_cons.mp hm with e | hm
        · have : c0 = c := ho.tasksInj c0 h0 c hcm (by rw [e, hct])
          exact hne (this ▸ hci)
        · exact p2 hm
      · intro c' h m' hr
        obtain ⟨c0, h0, rfl⟩ := List.mem_map.mp h
        by_cases hi : c0.id = m.callId
        · -- the call this response answers
          have hc0 : c0 = c := ho.idsInj c0 h0 c hcm (by rw [hi, hci])
          subst hc0
          have : upd m c0 = { c0 with resp := some m } := by simp [upd, hi, hcr]
          rw [this] at hr ⊢
          simp at hr; subst hr
          simp only [hi]
          exact ⟨by simp, by simp, by simp [hct]⟩
        · have hsame : upd m c0 = c0 := by simp [upd, hi]
          rw [hsame] at hr ⊢
          obtain ⟨a1, a2, a3⟩ := ho.answered c0 h0 m' hr
          exact ⟨by rw [dlookup_dset_ne hi]; exact a1, by rw [dlookup_derase_ne hi]; exact a2,
            List.mem_cons_of_mem _ a3⟩
      · intro i t' hl'
        by_cases hi : i = m.callId
        · subst hi; simp at hl'
        · rw [dlookup_derase_ne hi] at hl'
          obtain ⟨c0, h0, e1, e2, e3⟩ := ho.reqs i t' hl'
          refine ⟨upd m c0, List.mem_map.mpr ⟨c0, h0, rfl⟩, by simpa using e1, by simpa using e2, ?_⟩
          have : c0.id ≠ m.callId := e1 ▸ hi
          simp [upd, this, e3]

theorem step_open_cleanup {s : State} {a : CallSpec} (hb : Base s a) (hc : s.closed = false) (ho : Open s a) :
    Rel (doCleanup s).1 { a with closed := true } ∧ obs (doCleanup s).2 = [] := by
  simp only [doCleanup, hc, Bool.false_eq_true, if_false]
  refine ⟨⟨⟨hb.nextId, hb.nextTask, rfl, hb.frames⟩, fun h => by simp at h, fun _ c hcm => ?_⟩, by simp [obs, Out.observable]⟩
  show c.task ∈ s.requests.map (·.2) ++ s.fired
  cases hr : c.resp with
  | none =>
    have := mem_of_dlookup (ho.pending c hcm hr).1
    exact List.mem_append_left _ (List.mem_map.mpr ⟨_, this, rfl⟩)
  | some m => exact List.mem_append_right _ (ho.answered c hcm m hr).2.2

theorem step_open_wake {s : State} {a : CallSpec} (hb : Base s a) (hc : s.closed = false) (ho : Open s a) (t : Nat) :
    Rel (step s (.wake t)).1 (CallSpec.step a (.wake t)).1 ∧
      obs (step s (.wake t)).2 = (CallSpec.step a (.wake t)).2 := by
  have hca : a.closed = false := by rw [← hb.closed]; exact hc
  simp only [step, CallSpec.step]
  rw [hb.frames, dlookup_proj]
  cases hs : sfind t a.calls with
  | none =>
    simp only [Option.map_none]
    exact ⟨⟨hb, fun _ => ho, fun h => by simp [hc] at h⟩, by simp [obs, Out.observable]⟩
  | some c =>
    obtain ⟨hcm, hct⟩ := sfind_some hs
    simp only [Option.map_some, hc, hca, Bool.false_eq_true, if_false]
    cases hr : c.resp with
    | none =>
      have hnf : t ∉ s.fired := hct ▸ (ho.pending c hcm hr).2
      simp only [hnf, if_false]
      exact ⟨⟨hb, fun _ => ho, fun h => by simp [hc] at h⟩, by simp [obs, Out.observable]⟩
    | some m =>
      obtain ⟨a1, a2, a3⟩ := ho.answered c hcm m hr
      have htf : t ∈ s.fired := hct ▸ a3
      simp only [htf, if_true, a1]
      refine ⟨⟨⟨hb.nextId, hb.nextTask, rfl, derase_proj t a.calls⟩, fun _ => ?_, fun h => by simp at h⟩, by simp [obs, Out.observable]⟩
      · have sub : ∀ c' ∈ a.calls.filter (·.task ≠ t), c' ∈ a.calls ∧ c'.task ≠ t := by
          intro c' h; have := List.mem_filter.mp h; exact ⟨this.1, by simpa using this.2⟩
        constructor
        · exact fun c' h => ho.tasksLt c' (sub c' h).1
        · exact ho.firedLt
        · exact ho.reqsLt
        · exact fun c1 h1 c2 h2 e => ho.tasksInj c1 (sub c1 h1).1 c2 (sub c2 h2).1 e
        · exact fun c1 h1 c2 h2 e => ho.idsInj c1 (sub c1 h1).1 c2 (sub c2 h2).1 e
        · exact fun c' h hr' => ho.pending c' (sub c' h).1 hr'
        · intro c' h m' hr'
          obtain ⟨b1, b2, b3⟩ := ho.answered c' (sub c' h).1 m' hr'
          have hne : c'.id ≠ c.id := by
            intro e
            have := ho.idsInj c' (sub c' h).1 c hcm e
            exact (sub c' h).2 (this ▸ hct)
          exact ⟨by rw [dlookup_derase_ne hne]; exact b1, b2, b3⟩
        · intro i t' hl
          obtain ⟨c0, h0, e1, e2, e3⟩ := ho.reqs i t' hl
          refine ⟨c0, List.mem_filter.mpr ⟨h0, ?_⟩, e1, e2, e3⟩
          simp only [ne_eq, decide_not, Bool.not_eq_eq_eq_not, Bool.not_true, decide_eq_false_iff_not]
          intro e
          have := ho.tasksInj c0 h0 c hcm (by rw [e, hct])
          rw [this, hr] at e3; cases e3

/-- one step: the relation is preserved and the observable outputs agree -/
theorem step_refines {s : State} {a : CallSpec} (hR : Rel s a) (op : Op) (hf : FreshId s op) :
    Rel (step s op).1 (CallSpec.step a op).1 ∧ obs (step s op).2 = (CallSpec.step a op).2 := by
  cases hc : s.closed with
  | true => exact step_closed hR.base hc (hR.cls hc) op
  | false =>
    have ho := hR.opn hc
    cases op with
    | call nr =>
      cases nr with
      | true => exact step_open_call_noresp hR.base hc ho
      | false => exact step_open_call hR.base hc ho (hf hc)
    | recvResponse m => exact step_open_response hR.base hc ho m
    | recvRequest => exact ⟨⟨hR.base, fun _ => ho, fun h => by simp [step, hc] at h⟩, by simp [step, CallSpec.step, obs]⟩
    | eof => simpa [step, CallSpec.step] using step_open_cleanup hR.base hc ho
    | cleanup => simpa [step, CallSpec.step] using step_open_cleanup hR.base hc ho
    | wake t => exact step_open_wake hR.base hc ho t

theorem obs_append (x y : List Out) : obs (x ++ y) = obs x ++ obs y := by simp [obs]

/-- the implementation refines the specification on every op sequence with distinct live ids -/
theorem run_refines {s : State} {a : CallSpec} (hR : Rel s a) (ops : List Op) (hd : distinctLive s ops = true) :
    Rel (run s ops).1 (CallSpec.run a ops).1 ∧ obs (run s ops).2 = (CallSpec.run a ops).2 := by
  induction ops generalizing s a with
  | nil => exact ⟨hR, rfl⟩
  | cons op rest ih =>
    obtain ⟨hf, hd'⟩ := freshId_of_distinctLive s op rest hd
    obtain ⟨hR1, ho1⟩ := step_refines hR op hf
    obtain ⟨hR2, ho2⟩ := ih hR1 hd'
    simp only [run, CallSpec.run]
    exact ⟨hR2, by rw [obs_append, ho1, ho2]⟩



/-! ## consequences -/

theorem step_unknown_response (s : State) (m : Msg) (h : dlookup m.callId s.requests = none) :
    step s (.recvResponse m) = (s, [.warnInvalidCallId m.callId]) := by
  simp [step, h]

/-- in a reachable open state a response whose id is not the id of an outstanding *unanswered* call
    (never allocated, already answered, already completed) leaves the whole state unchanged -/
theorem response_inert {s : State} {a : CallSpec} (hR : Rel s a) (hc : s.closed = false) (m : Msg)
    (hno : ∀ c ∈ a.calls, c.id = m.callId → c.resp ≠ none) :
    step s (.recvResponse m) = (s, [.warnInvalidCallId m.callId]) ∧
      (CallSpec.step a (.recvResponse m)).1 = a := by
  have ho := hR.opn hc
  have hl : dlookup m.callId s.requests = none := by
    cases h : dlookup m.callId s.requests with
    | none => rfl
    | some t =>
      obtain ⟨c, hcm, e1, _, e3⟩ := ho.reqs _ _ h
      exact absurd e3 (hno c hcm e1)
  refine ⟨step_unknown_response s m hl, ?_⟩
  simp only [CallSpec.step]
  have hid : (a.calls.map fun c => if c.id = m.callId ∧ c.resp = none then { c with resp := some m } else c) = a.calls := by
    conv => rhs; rw [← List.map_id a.calls]
    apply List.map_congr_left
    intro c hcm
    split
    · rename_i h; exact absurd h.2 (hno c hcm h.1)
    · rfl
  rw [hid]

theorem step_closed_stays (s : State) (op : Op) (h : s.closed = true) : (step s op).1.closed = true := by
  cases op with
  | call nr => simp [step, h]
  | recvResponse m => simp only [step]; split <;> simp [h]
  | recvRequest => simp [step, h]
  | eof => simp [step, doCleanup, h]
  | cleanup => simp [step, doCleanup, h]
  | wake t =>
    simp only [step]
    split
    · exact h
    · split <;> simp [h]

/-- once closed, the relation survives any further ops (no hypothesis on ids needed) -/
theorem run_closed {s : State} {a : CallSpec} (hR : Rel s a) (hc : s.closed = true) (ops : List Op) :
    Rel (run s ops).1 (CallSpec.run a ops).1 ∧ (run s ops).1.closed = true ∧
      obs (run s ops).2 = (CallSpec.run a ops).2 := by
  induction ops generalizing s a with
  | nil => exact ⟨hR, hc, rfl⟩
  | cons op rest ih =>
    obtain ⟨hR1, ho1⟩ := step_closed hR.base hc (hR.cls hc) op
    obtain ⟨hR2, hc2, ho2⟩ := ih hR1 (step_closed_stays s op hc)
    simp only [run, CallSpec.run]
    exact ⟨hR2, hc2, by rw [obs_append, ho1, ho2]⟩

theorem dlookup_of_mem_fst {α : Type} {t : Nat} {v : α} {l : List (Nat × α)} (h : (t, v) ∈ l) :
    ∃ v', dlookup t l = some v' := by
  induction l with
  | nil => cases h
  | cons p r ih =>
    obtain ⟨k, w⟩ := p
    by_cases hk : k = t
    · exact ⟨w, by simp [dlookup, hk]⟩
    · rcases List.mem_cons.mp h with e | h
      · cases e; exact absurd rfl hk
      · obtain ⟨v', hv⟩ := ih h; exact ⟨v', by simp [dlookup, hk, hv]⟩

/-- closed: every suspended call has its event set, and resuming it raises "closed" (never a response) -/
theorem closed_frames_ready {s : State} {a : CallSpec} (hR : Rel s a) (hc : s.closed = true) (p : Nat × Nat)
    (hp : p ∈ s.frames) :
    p.1 ∈ s.fired ∧ (step s (.wake p.1)).2 = [.done p.1 .closed] := by
  have hf : p.1 ∈ s.fired := by
    rw [hR.base.frames] at hp
    obtain ⟨c, hcm, rfl⟩ := List.mem_map.mp hp
    exact hR.cls hc c hcm
  obtain ⟨id, hl⟩ := dlookup_of_mem_fst (t := p.1) (v := p.2) (l := s.frames) hp
  exact ⟨hf, by simp [step, hl, hf, hc]⟩

/-- open: a call whose response has arrived resumes with exactly that response -/
theorem wake_answered {s : State} {a : CallSpec} (hR : Rel s a) (hc : s.closed = false) (c : SCall)
    (hcm : c ∈ a.calls) (m : Msg) (hr : c.resp = some m) :
    (step s (.wake c.task)).2 = [.done c.task (outcomeOf m)] := by
  have ho := hR.opn hc
  obtain ⟨a1, _, a3⟩ := ho.answered c hcm m hr
  have hfind : sfind c.task a.calls = some c := by
    cases h : sfind c.task a.calls with
    | none => exact absurd rfl (sfind_none h c hcm)
    | some c' =>
      obtain ⟨h1, h2⟩ := sfind_some h
      rw [ho.tasksInj c' h1 c hcm h2]
  simp [step, hR.base.frames, dlookup_proj, hfind, a3, hc, a1]

/-- open: a call without response is not resumable, and a response carrying its id makes it answered by it -/
theorem pending_not_ready {s : State} {a : CallSpec} (hR : Rel s a) (hc : s.closed = false) (c : SCall)
    (hcm : c ∈ a.calls) (hr : c.resp = none) : c.task ∉ s.fired :=
  ((hR.opn hc).pending c hcm hr).2

/-! ### H-ids holds whenever the counter cannot wrap within the run -/
def isCall : Op → Bool
  | .call _ => true
  | _ => false

def nCalls (ops : List Op) : Nat := (ops.filter isCall).length

theorem distinctLive_of_small (s : State) (ops : List Op) (h1 : ∀ p ∈ s.frames, p.2 < s.nextId)
    (h2 : s.nextId + nCalls ops < 4294967296) : distinctLive s ops = true := by
  induction ops generalizing s with
  | nil => rfl
  | cons op rest ih =>
    simp only [distinctLive, Bool.and_eq_true]
    cases op with
    | call nr =>
      have hn : nCalls (Op.call nr :: rest) = nCalls rest + 1 := by simp [nCalls, isCall, List.filter]
      rw [hn] at h2
      have hmod : (s.nextId + 1) % 4294967296 = s.nextId + 1 := Nat.mod_eq_of_lt (by omega)
      constructor
      · cases nr with
        | true => rfl
        | false =>
          cases hc : s.closed with
          | true => rfl
          | false =>
            simp only [Bool.false_or, Bool.not_eq_true', List.contains_eq_mem, decide_eq_false_iff_not]
            intro hm
            obtain ⟨p, hp, e⟩ := List.mem_map.mp hm
            have := h1 p hp; omega
      · apply ih
        · intro p hp
          cases hc : s.closed with
          | true => simp [step, hc] at hp ⊢; have := h1 p hp; omega
          | false =>
            cases nr with
            | true => simp [step, hc, hmod] at hp ⊢; have := h1 p hp; omega
            | false =>
              simp [step, hc, hmod] at hp ⊢
              rcases hp with rfl | hp
              · simp
              · have := h1 p hp; omega
        · cases hc : s.closed with
          | true => simp [step, hc]; omega
          | false => cases nr <;> simp [step, hc, hmod] <;> omega
    | recvResponse m =>
      refine ⟨rfl, ih _ ?_ ?_⟩
      · simp only [step]; split <;> exact h1
      · have : nCalls (Op.recvResponse m :: rest) = nCalls rest := by simp [nCalls, isCall, List.filter]
        rw [this] at h2
        simp only [step]; split <;> exact h2
    | recvRequest =>
      have : nCalls (Op.recvRequest :: rest) = nCalls rest := by simp [nCalls, isCall, List.filter]
      rw [this] at h2
      exact ⟨rfl, ih _ (by simpa [step] using h1) (by simpa [step] using h2)⟩
    | eof =>
      have : nCalls (Op.eof :: rest) = nCalls rest := by simp [nCalls, isCall, List.filter]
      rw [this] at h2
      refine ⟨rfl, ih _ ?_ ?_⟩ <;> simp only [step, doCleanup] <;> split <;> assumption
    | cleanup =>
      have : nCalls (Op.cleanup :: rest) = nCalls rest := by simp [nCalls, isCall, List.filter]
      rw [this] at h2
      refine ⟨rfl, ih _ ?_ ?_⟩ <;> simp only [step, doCleanup] <;> split <;> assumption
    | wake t =>
      have : nCalls (Op.wake t :: rest) = nCalls rest := by simp [nCalls, isCall, List.filter]
      rw [this] at h2
      refine ⟨rfl, ih _ ?_ ?_⟩
      · simp only [step]
        split
        · exact h1
        · split
          · split
            · exact fun p hp => h1 p (mem_derase hp)
            · split <;> exact fun p hp => h1 p (mem_derase hp)
          · exact h1
      · simp only [step]
        split
        · exact h2
        · split
          · split
            · exact h2
            · split <;> exact h2
          · exact h2

/-! ### no cross-talk: history of the specification machine -/
def HistInv (a : CallSpec) (pre : List Op) (preOuts : List Out) : Prop :=
  ∀ c ∈ a.calls, Out.sent c.task c.id ∈ preOuts ∧
    ∀ m, c.resp = some m → Op.recvResponse m ∈ pre ∧ m.callId = c.id

/-- a completed call: closed, response-less, or the outcome of a received response with the id it sent -/
def Explained (ops : List Op) (outs : List Out) (t : Nat) (o : Outcome) : Prop :=
  o = .closed ∨ o = .none ∨
    ∃ id m, Out.sent t id ∈ outs ∧ Op.recvResponse m ∈ ops ∧ m.callId = id ∧ o = outcomeOf m

theorem spec_step_hist (a : CallSpec) (op : Op) (pre : List Op) (preOuts : List Out) (h : HistInv a pre preOuts) :
    HistInv (CallSpec.step a op).1 (pre ++ [op]) (preOuts ++ (CallSpec.step a op).2) ∧
    ∀ t o, Out.done t o ∈ (CallSpec.step a op).2 → Explained pre preOuts t o := by
  cases op with
  | call nr =>
    simp only [CallSpec.step]
    split
    · refine ⟨fun c hc => ?_, fun t o hd => ?_⟩
      · obtain ⟨h1, h2⟩ := h c hc
        exact ⟨List.mem_append_left _ h1, fun m hm => ⟨List.mem_append_left _ (h2 m hm).1, (h2 m hm).2⟩⟩
      · simp at hd; exact .inl hd.2
    · cases nr with
      | true =>
        refine ⟨fun c hc => ?_, fun t o hd => ?_⟩
        · obtain ⟨h1, h2⟩ := h c hc
          exact ⟨List.mem_append_left _ h1, fun m hm => ⟨List.mem_append_left _ (h2 m hm).1, (h2 m hm).2⟩⟩
        · simp at hd; exact .inr (.inl hd.2)
      | false =>
        refine ⟨fun c hc => ?_, fun t o hd => by simp at hd⟩
        simp only [Bool.false_eq_true, if_false] at hc ⊢
        rcases List.mem_cons.mp hc with rfl | hc
        · exact ⟨by simp, fun m hm => by simp at hm⟩
        · obtain ⟨h1, h2⟩ := h c hc
          exact ⟨List.mem_append_left _ h1, fun m hm => ⟨List.mem_append_left _ (h2 m hm).1, (h2 m hm).2⟩⟩
  | recvResponse m =>
    simp only [CallSpec.step]
    refine ⟨fun c hc => ?_, fun t o hd => by simp at hd⟩
    obtain ⟨c0, h0, rfl⟩ := List.mem_map.mp hc
    obtain ⟨h1, h2⟩ := h c0 h0
    split
    · rename_i hu
      exact ⟨by simpa using h1, fun m' hm' => by simp at hm'; subst hm'; exact ⟨by simp, hu.1.symm⟩⟩
    · exact ⟨by simpa using h1, fun m' hm' => ⟨List.mem_append_left _ (h2 m' hm').1, (h2 m' hm').2⟩⟩
  | recvRequest =>
    refine ⟨fun c hc => ?_, fun t o hd => by simp [CallSpec.step] at hd⟩
    obtain ⟨h1, h2⟩ := h c hc
    exact ⟨by simpa [CallSpec.step] using h1, fun m hm => ⟨List.mem_append_left _ (h2 m hm).1, (h2 m hm).2⟩⟩
  | eof =>
    refine ⟨fun c hc => ?_, fun t o hd => by simp [CallSpec.step] at hd⟩
    obtain ⟨h1, h2⟩ := h c hc
    exact ⟨by simpa [CallSpec.step] using h1, fun m hm => ⟨List.mem_append_left _ (h2 m hm).1, (h2 m hm).2⟩⟩
  | cleanup =>
    refine ⟨fun c hc => ?_, fun t o hd => by simp [CallSpec.step] at hd⟩
    obtain ⟨h1, h2⟩ := h c hc
    exact ⟨by simpa [CallSpec.step] using h1, fun m hm => ⟨List.mem_append_left _ (h2 m hm).1, (h2 m hm).2⟩⟩
  | wake t =>
    have keep : ∀ (l : List Out), HistInv { a with calls := a.calls.filter (·.task ≠ t) } (pre ++ [Op.wake t]) (preOuts ++ l) := by
      intro l c hc
      obtain ⟨h1, h2⟩ := h c (List.mem_filter.mp hc).1
      exact ⟨List.mem_append_left _ h1, fun m hm => ⟨List.mem_append_left _ (h2 m hm).1, (h2 m hm).2⟩⟩
    have keep' : ∀ (l : List Out), HistInv a (pre ++ [Op.wake t]) (preOuts ++ l) := by
      intro l c hc
      obtain ⟨h1, h2⟩ := h c hc
      exact ⟨List.mem_append_left _ h1, fun m hm => ⟨List.mem_append_left _ (h2 m hm).1, (h2 m hm).2⟩⟩
    simp only [CallSpec.step]
    cases hs : sfind t a.calls with
    | none => exact ⟨keep' _, fun t' o hd => by simp at hd⟩
    | some c =>
      obtain ⟨hcm, hct⟩ := sfind_some hs
      simp only
      split
      · exact ⟨keep _, fun t' o hd => by simp at hd; exact .inl hd.2⟩
      · cases hr : c.resp with
        | none => exact ⟨keep' _, fun t' o hd => by simp at hd⟩
        | some m =>
          refine ⟨keep _, fun t' o hd => ?_⟩
          simp at hd
          obtain ⟨rfl, rfl⟩ := hd
          obtain ⟨h1, h2⟩ := h c hcm
          exact .inr (.inr ⟨c.id, m, hct ▸ h1, (h2 m hr).1, (h2 m hr).2, rfl⟩)

theorem spec_run_hist (a : CallSpec) (ops pre : List Op) (preOuts : List Out) (h : HistInv a pre preOuts) :
    ∀ t o, Out.done t o ∈ (CallSpec.run a ops).2 →
      Explained (pre ++ ops) (preOuts ++ (CallSpec.run a ops).2) t o := by
  induction ops generalizing a pre preOuts with
  | nil => intro t o hd; simp [CallSpec.run] at hd
  | cons op rest ih =>
    intro t o hd
    obtain ⟨hI, hS⟩ := spec_step_hist a op pre preOuts h
    simp only [CallSpec.run] at hd ⊢
    rcases List.mem_append.mp hd with hd | hd
    · rcases hS t o hd with e | e | ⟨id, m, s1, s2, s3, s4⟩
      · exact .inl e
      · exact .inr (.inl e)
      · exact .inr (.inr ⟨id, m, List.mem_append_left _ s1, List.mem_append_left _ s2, s3, s4⟩)
    · rcases ih _ _ _ hI t o hd with e | e | ⟨id, m, s1, s2, s3, s4⟩
      · exact .inl e
      · exact .inr (.inl e)
      · refine .inr (.inr ⟨id, m, ?_, ?_, s3, s4⟩)
        · simpa [List.append_assoc] using s1
        · simpa [List.append_assoc] using s2

theorem mem_obs {x : Out} {l : List Out} : x ∈ obs l ↔ x ∈ l ∧ x.observable = true := by
  simp [obs, List.mem_filter]

/-- a later response with the same id never replaces the first one -/
theorem first_response_wins (m m' : Msg) (c : SCall) (h : c.id = m.callId) : upd m' (upd m c) = upd m c := by
  unfold upd
  cases hr : c.resp <;> simp [h, hr]

end Nx.RmcClient
