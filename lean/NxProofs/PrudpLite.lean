import NxProofs.PrudpV1
/-! lite codec: one-packet lemma, fuel independence, pending buffers, chunking independence -/
set_option linter.unusedSimpArgs false
namespace Nx.Prudp
open Nx

/-- the five option shapes of a lite packet -/
theorem lite_cases (t f : Nat) :
    (t = 0 ∧ hasAck f = true) ∨ (t = 0 ∧ hasAck f = false) ∨ (t = 1 ∧ hasAck f = true) ∨ (t = 1 ∧ hasAck f = false) ∨
    (t ≠ 0 ∧ t ≠ 1) := by
  cases hasAck f <;> simp <;> omega

theorem liteOptions_wf (p : Packet) (h : LiteWF p) : OptsWF (liteOptions p) := by
  obtain ⟨-, -, -, -, -, -, -, -, -, -, -, -, -, -, hsc, hcs, hsg⟩ := h
  rcases lite_cases p.type p.flags with ⟨ht, ha⟩ | ⟨ht, ha⟩ | ⟨ht, ha⟩ | ⟨ht, ha⟩ | ⟨h0, h1⟩
  · simp [ht, ha, isSynOrConnect] at hsc hcs hsg
    obtain ⟨x, hx, hxl⟩ := optLen_some hcs
    simp [liteOptions, ht, ha, isSynOrConnect, OptsWF, Opts.keys, OPTION_SUPPORT, OPTION_CONNECTION_SIG,
      OptEntryWF, hx, optBytesVal, hxl, support_lt hsc.1 hsc.2]
  · simp [ht, ha, isSynOrConnect] at hsc hcs hsg
    simp [liteOptions, ht, ha, isSynOrConnect, OptsWF, Opts.keys, OPTION_SUPPORT, OptEntryWF, support_lt hsc.1 hsc.2]
  · simp [ht, ha, isSynOrConnect] at hsc hcs hsg
    simp [liteOptions, ht, ha, isSynOrConnect, OptsWF, Opts.keys, OPTION_SUPPORT, OptEntryWF, support_lt hsc.1 hsc.2]
  · simp [ht, ha, isSynOrConnect] at hsc hcs hsg
    obtain ⟨x, hx, hxl⟩ := optLen_some hsg
    simp [liteOptions, ht, ha, isSynOrConnect, OptsWF, Opts.keys, OPTION_SUPPORT, OPTION_CONNECTION_SIG_LITE,
      OptEntryWF, hx, optBytesVal, hxl, support_lt hsc.1 hsc.2]
  · simp [liteOptions, h0, h1, isSynOrConnect, OptsWF, Opts.keys]

theorem liteEncodeOptions_length (p : Packet) (h : LiteWF p) : (liteEncodeOptions p).length < 256 := by
  obtain ⟨-, -, -, -, -, -, -, -, -, -, -, -, -, -, hsc, hcs, hsg⟩ := h
  unfold liteEncodeOptions
  rcases lite_cases p.type p.flags with ⟨ht, ha⟩ | ⟨ht, ha⟩ | ⟨ht, ha⟩ | ⟨ht, ha⟩ | ⟨h0, h1⟩
  · simp [ht, ha, isSynOrConnect] at hsc hcs hsg
    obtain ⟨x, hx, hxl⟩ := optLen_some hcs
    simp [liteOptions, ht, ha, isSynOrConnect, encodeOptions, encodeOption, OPTION_SUPPORT, OPTION_CONNECTION_SIG,
      optInfo, hx, optBytesVal, pad16_of_length hxl, hxl]
  · simp [liteOptions, ht, ha, isSynOrConnect, encodeOptions, encodeOption, OPTION_SUPPORT, optInfo]
  · simp [liteOptions, ht, ha, isSynOrConnect, encodeOptions, encodeOption, OPTION_SUPPORT, optInfo]
  · simp [ht, ha, isSynOrConnect] at hsc hcs hsg
    obtain ⟨x, hx, hxl⟩ := optLen_some hsg
    simp [liteOptions, ht, ha, isSynOrConnect, encodeOptions, encodeOption, OPTION_SUPPORT, OPTION_CONNECTION_SIG_LITE,
      optInfo, hx, optBytesVal, pad16_of_length hxl, hxl]
  · simp [liteOptions, h0, h1, isSynOrConnect, encodeOptions]

theorem liteVerify_enc (p : Packet) : liteVerifyOptions p.type p.flags (liteOptions p) = true := by
  rcases lite_cases p.type p.flags with ⟨ht, ha⟩ | ⟨ht, ha⟩ | ⟨ht, ha⟩ | ⟨ht, ha⟩ | ⟨h0, h1⟩
  · simp [liteVerifyOptions, liteOptions, ht, ha, isSynOrConnect, Opts.keysEq, Opts.keys, OPTION_SUPPORT, OPTION_CONNECTION_SIG]
  · simp [liteVerifyOptions, liteOptions, ht, ha, isSynOrConnect, Opts.keysEq, Opts.keys, OPTION_SUPPORT]
  · simp [liteVerifyOptions, liteOptions, ht, ha, isSynOrConnect, Opts.keysEq, Opts.keys, OPTION_SUPPORT]
  · simp [liteVerifyOptions, liteOptions, ht, ha, isSynOrConnect, Opts.keysEq, Opts.keys, OPTION_SUPPORT, OPTION_CONNECTION_SIG_LITE]
  · simp [liteVerifyOptions, liteOptions, h0, h1, isSynOrConnect, Opts.keysEq, Opts.keys]

theorem liteOptFields_enc (p : Packet) (h : LiteWF p) :
    liteOptFields p.type p.flags (liteOptions p) = .ok {
      minorVersion := p.minorVersion, supportedFunctions := p.supportedFunctions,
      connectionSignature := p.connectionSignature, signature := p.signature } := by
  obtain ⟨-, -, -, -, -, -, -, -, -, -, -, -, -, -, hsc, hcs, hsg⟩ := h
  rcases lite_cases p.type p.flags with ⟨ht, ha⟩ | ⟨ht, ha⟩ | ⟨ht, ha⟩ | ⟨ht, ha⟩ | ⟨h0, h1⟩
  · simp [ht, ha, isSynOrConnect] at hsc hcs hsg
    obtain ⟨x, hx, hxl⟩ := optLen_some hcs
    simp [liteOptFields, liteOptions, ht, ha, isSynOrConnect, Opts.getInt, Opts.getBytes, Opts.get, List.lookup,
      OPTION_SUPPORT, OPTION_CONNECTION_SIG, hx, optBytesVal, bind, Except.bind, pure, Except.pure, pyOr8 _ hsc.1, hsg]
    omega
  · simp [ht, ha, isSynOrConnect] at hsc hcs hsg
    simp [liteOptFields, liteOptions, ht, ha, isSynOrConnect, Opts.getInt, Opts.getBytes, Opts.get, List.lookup,
      OPTION_SUPPORT, bind, Except.bind, pure, Except.pure, pyOr8 _ hsc.1, hsg, hcs]
    omega
  · simp [ht, ha, isSynOrConnect] at hsc hcs hsg
    simp [liteOptFields, liteOptions, ht, ha, isSynOrConnect, Opts.getInt, Opts.getBytes, Opts.get, List.lookup,
      OPTION_SUPPORT, bind, Except.bind, pure, Except.pure, pyOr8 _ hsc.1, hsg, hcs]
    omega
  · simp [ht, ha, isSynOrConnect] at hsc hcs hsg
    obtain ⟨x, hx, hxl⟩ := optLen_some hsg
    simp [liteOptFields, liteOptions, ht, ha, isSynOrConnect, Opts.getInt, Opts.getBytes, Opts.get, List.lookup,
      OPTION_SUPPORT, OPTION_CONNECTION_SIG_LITE, hx, optBytesVal, bind, Except.bind, pure, Except.pure, pyOr8 _ hsc.1, hcs]
    omega
  · simp [h0, h1, isSynOrConnect] at hsc hcs hsg
    simp [liteOptFields, liteOptions, h0, h1, isSynOrConnect, bind, Except.bind, pure, Except.pure, hsc, hcs, hsg]


/-- result pair with a packet list prepended (errors pass through) -/
def prependRes (ps : List Packet) (r : Except Err (List Packet) × Bytes) : Except Err (List Packet) × Bytes :=
  match r with
  | (.error e, b) => (.error e, b)
  | (.ok qs, b) => (.ok (ps ++ qs), b)

theorem prependRes_nil (r : Except Err (List Packet) × Bytes) : prependRes [] r = r := by
  obtain ⟨x, b⟩ := r; cases x <;> rfl

theorem prependRes_append (a b : List Packet) (r : Except Err (List Packet) × Bytes) :
    prependRes (a ++ b) r = prependRes a (prependRes b r) := by
  obtain ⟨x, y⟩ := r; cases x <;> simp [prependRes]

/-- the eight header bytes after magic / option size / payload size -/
def liteHdr8 (p : Packet) : Bytes :=
  u8 ((p.sourceType <<< 4) ||| p.destType) ++ u8 p.sourcePort ++ u8 p.destPort ++ u8 p.fragmentId ++
  u16le (pyOr p.type p.flags 4) ++ u16le p.packetId

theorem liteHdr8_length (p : Packet) : (liteHdr8 p).length = 8 := by simp [liteHdr8]

theorem liteEncode_eq (p : Packet) :
    liteEncode p = u8 0x80 ++ (u8 (liteEncodeOptions p).length ++ (u16le p.payload.length ++
      (liteHdr8 p ++ (liteEncodeOptions p ++ p.payload)))) := by
  simp [liteEncode, liteEncodeHeader, liteHdr8]

theorem liteEncode_length (p : Packet) :
    (liteEncode p).length = 12 + (liteEncodeOptions p).length + p.payload.length := by
  rw [liteEncode_eq]; simp [liteHdr8_length]; omega

theorem liteRdHeader_enc (p : Packet) (rest : Bytes) (h : LiteWF p) :
    liteRdHeader (liteHdr8 p ++ rest) =
      .ok ({ streamTypes := p.destType + p.sourceType * 16, sourcePort := p.sourcePort, destPort := p.destPort,
             fragmentId := p.fragmentId, typeFlags := p.type + p.flags * 16, packetId := p.packetId }, rest) := by
  obtain ⟨-, hst, hdt, hsp, hdp, hfr, hty, hfl, hpid, -⟩ := h
  have h1 : p.destType + p.sourceType * 16 < 256 := by omega
  have h3 : p.type + p.flags * 16 < 65536 := by omega
  simp only [liteRdHeader, liteHdr8, shl4_or _ hdt, pyOr4 _ hty, List.append_assoc]
  rw [rdU8_u8 _ _ h1]; simp only []
  rw [rdU8_u8 _ _ hsp]; simp only []
  rw [rdU8_u8 _ _ hdp]; simp only []
  rw [rdU8_u8 _ _ hfr]; simp only []
  rw [rdU16_u16le _ _ h3]; simp only []
  rw [rdU16_u16le _ _ hpid]

theorem liteParse_enc (p : Packet) (rest : Bytes) (h : LiteWF p) :
    liteParse (liteEncodeOptions p).length p.payload.length (liteHdr8 p ++ (liteEncodeOptions p ++ (p.payload ++ rest)))
      = .ok p := by
  have hdo : decodeOptions (liteEncodeOptions p) = .ok (liteOptions p) := options_roundtrip _ (liteOptions_wf p h)
  have hof := liteOptFields_enc p h
  have hh := liteRdHeader_enc p (liteEncodeOptions p ++ (p.payload ++ rest)) h
  obtain ⟨hver, hst, hdt, hsp, hdp, hfr, hty, hfl, hpid, hse, hsub, hms, hiu, hpl, -, -, -⟩ := h
  unfold liteParse
  rw [hh]; simp only []
  rw [rd_append]; simp only []
  rw [hdo]; simp only []
  have e1 : (p.type + p.flags * 16) % 16 = p.type := by omega
  have e2 : (p.type + p.flags * 16) / 16 = p.flags := by omega
  rw [e1, e2, liteVerify_enc, hof]
  simp only [Bool.not_true, Bool.false_eq_true, if_false]
  rw [rd_append]
  simp only [Except.ok.injEq]
  have e3 : (p.destType + p.sourceType * 16) / 16 = p.sourceType := by omega
  have e4 : (p.destType + p.sourceType * 16) % 16 = p.destType := by omega
  rw [e3, e4]
  obtain ⟨ty, fl, ver, st, sp, dt, dp, se, pid, fr, sub, cs, iu, ms, sf, mv, sig, pl⟩ := p
  simp at hsub hms hiu hver hse
  simp [hsub, hms, hiu, hver, hse]

/-- one complete well-formed packet at the head of the buffer is emitted and the loop continues behind it -/
theorem liteLoop_one (p : Packet) (x : Bytes) (fuel : Nat) (h : LiteWF p) :
    liteLoop (fuel + 1) (liteEncode p ++ x) = prependRes [p] (liteLoop fuel x) := by
  have hol := liteEncodeOptions_length p h
  have hpl : p.payload.length < 65536 := h.2.2.2.2.2.2.2.2.2.2.2.2.2.1
  have hlen := liteEncode_length p
  have hparse := liteParse_enc p x h
  rw [liteLoop]
  have hne : (liteEncode p ++ x).isEmpty = false := by rw [liteEncode_eq]; simp [u8]
  rw [hne]
  simp only [Bool.false_eq_true, if_false]
  rw [if_neg (by simp; omega)]
  have hdrop : (liteEncode p ++ x).drop (12 + (liteEncodeOptions p).length + p.payload.length) = x := by
    rw [← hlen]; simp
  have hl2 : (liteEncode p ++ x).length = 12 + (liteEncodeOptions p).length + p.payload.length + x.length := by
    simp [hlen]
  generalize hb : liteEncode p ++ x = buf at *
  rw [liteEncode_eq] at hb
  simp only [List.append_assoc] at hb
  rw [← hb]
  rw [rdU8_u8 _ _ (by omega)]; simp only [ne_eq, not_true_eq_false, if_false]
  rw [rdU8_u8 _ _ hol]; simp only []
  rw [rdU16_u16le _ _ hpl]; simp only []
  rw [hb, if_neg (by omega), hdrop, hparse]
  simp only []
  cases liteLoop fuel x with
  | mk r b => cases r <;> rfl


/-- the fuel bound of the lite loop is never what decides the result -/
theorem liteLoop_fuel : ∀ (f1 f2 : Nat) (buf : Bytes), buf.length < f1 → buf.length < f2 →
    liteLoop f1 buf = liteLoop f2 buf := by
  intro f1
  induction f1 with
  | zero => intro f2 buf h; omega
  | succ f ih =>
    intro f2 buf h1 h2
    cases f2 with
    | zero => omega
    | succ g =>
      rw [liteLoop, liteLoop]
      split; · rfl
      split; · rfl
      rename_i hlen
      split; · rfl
      split; · rfl
      split; · rfl
      split; · rfl
      split; · rfl
      split; · rfl
      simp only []
      rw [ih g]
      · simp; omega
      · simp; omega


/-- one `decode` call on a fresh object (fuel normalised) -/
def liteRun (x : Bytes) : Except Err (List Packet) × Bytes := liteLoop (x.length + 1) x

theorem liteFeed_eq_run (buf c : Bytes) : liteFeed buf c = liteRun (buf ++ c) := rfl

theorem liteLoop_eq_run (fuel : Nat) (x : Bytes) (h : x.length < fuel) : liteLoop fuel x = liteRun x :=
  liteLoop_fuel _ _ _ h (by omega)

/-- empty, or a proper prefix of the encoding of a well-formed packet: what the buffer holds between reads -/
def LitePending (t : Bytes) : Prop := t = [] ∨ ∃ p u, LiteWF p ∧ u ≠ [] ∧ t ++ u = liteEncode p

theorem LitePending.prefix {a b : Bytes} (h : LitePending (a ++ b)) : LitePending a := by
  rcases h with h | ⟨p, u, hp, hu, he⟩
  · left; simpa using (List.append_eq_nil_iff.mp h).1
  · right; exact ⟨p, b ++ u, hp, by simp [hu], by simpa using he⟩

/-- an incomplete packet stays in the buffer and nothing is emitted -/
theorem liteRun_pending {t : Bytes} (h : LitePending t) : liteRun t = (.ok [], t) := by
  unfold liteRun
  rw [liteLoop]
  rcases h with rfl | ⟨p, u, hp, hu, he⟩
  · simp
  · split; · rfl
    split; · rfl
    rename_i hne hl
    have hol := liteEncodeOptions_length p hp
    have hpl : p.payload.length < 65536 := hp.2.2.2.2.2.2.2.2.2.2.2.2.2.1
    have hlen := liteEncode_length p
    have hul : 0 < u.length := List.length_pos_iff.mpr hu
    have htl : t.length < 12 + (liteEncodeOptions p).length + p.payload.length := by
      have := congrArg List.length he; simp at this; omega
    have ht : t = (liteEncode p).take t.length := by rw [← he]; simp
    obtain ⟨n, hn⟩ : ∃ n, t.length = n + 4 := ⟨t.length - 4, by omega⟩
    rw [liteEncode_eq, hn] at ht
    simp only [u8, u16le, List.cons_append, List.nil_append, List.take_succ_cons] at ht
    rw [ht]
    simp only [rdU8, rdU16, b8_toNat]
    have e1 : 128 % 256 = 128 := rfl
    simp only [e1, ne_eq, not_true_eq_false, if_false]
    rw [← ht]
    have e2 : (liteEncodeOptions p).length % 256 = (liteEncodeOptions p).length := Nat.mod_eq_of_lt hol
    have e3 : p.payload.length % 256 + 256 * (p.payload.length / 256 % 256) = p.payload.length := by omega
    rw [e2, e3, if_pos htl]

theorem liteEncode_ne_nil (p : Packet) : liteEncode p ≠ [] := by
  rw [liteEncode_eq]; simp [u8]

/-- a well-formed stream followed by anything: the packets come out in order, the loop continues on the rest -/
theorem liteRun_stream (ps : List Packet) (hwf : ∀ p ∈ ps, LiteWF p) (x : Bytes) :
    liteRun (ps.flatMap liteEncode ++ x) = prependRes ps (liteRun x) := by
  induction ps with
  | nil => simp [prependRes_nil]
  | cons p ps ih =>
    have hp := hwf p (by simp)
    have hlen := liteEncode_length p
    simp only [List.flatMap_cons, List.append_assoc]
    unfold liteRun
    rw [liteLoop_one p _ _ hp]
    rw [liteLoop_eq_run _ _ (by simp; omega)]
    rw [ih (fun q hq => hwf q (by simp [hq]))]
    rw [← prependRes_append]
    rfl

/-- every prefix of a valid stream splits into whole packets and a pending remainder -/
theorem lite_prefix_decomp (ps : List Packet) (tail : Bytes) (ht : LitePending tail) (hwf : ∀ p ∈ ps, LiteWF p) :
    ∀ a b, a ++ b = ps.flatMap liteEncode ++ tail →
      ∃ ps1 ps2 buf, ps = ps1 ++ ps2 ∧ a = ps1.flatMap liteEncode ++ buf ∧ LitePending buf ∧
        buf ++ b = ps2.flatMap liteEncode ++ tail := by
  induction ps with
  | nil =>
    intro a b h
    simp only [List.flatMap_nil, List.nil_append] at h
    exact ⟨[], [], a, rfl, by simp, LitePending.prefix (h ▸ ht), by simpa using h⟩
  | cons p ps ih =>
    intro a b h
    simp only [List.flatMap_cons, List.append_assoc] at h
    rcases List.append_eq_append_iff.mp h with ⟨a', h1, h2⟩ | ⟨c', h1, h2⟩
    · by_cases ha : a' = []
      · subst ha
        simp only [List.append_nil] at h1
        simp only [List.nil_append] at h2
        obtain ⟨ps1, ps2, buf, e1, e2, e3, e4⟩ := ih (fun q hq => hwf q (by simp [hq])) [] b (by simpa using h2)
        refine ⟨p :: ps1, ps2, buf, by simp [e1], ?_, e3, e4⟩
        simp only [List.flatMap_cons, List.append_assoc]
        rw [← e2, ← h1]; simp
      · refine ⟨[], p :: ps, a, rfl, by simp, Or.inr ⟨p, a', hwf p (by simp), ha, h1.symm⟩, ?_⟩
        simp only [List.flatMap_cons, List.append_assoc]
        rw [h2, ← List.append_assoc, ← h1]
    · obtain ⟨ps1, ps2, buf, e1, e2, e3, e4⟩ := ih (fun q hq => hwf q (by simp [hq])) c' b h2.symm
      refine ⟨p :: ps1, ps2, buf, by simp [e1], ?_, e3, e4⟩
      simp only [List.flatMap_cons, List.append_assoc]
      rw [h1, e2]

/-- a prefix of some valid stream -/
def LiteValidPrefix (x : Bytes) : Prop :=
  ∃ (ps : List Packet) (tail b : Bytes), (∀ p ∈ ps, LiteWF p) ∧ LitePending tail ∧ x ++ b = ps.flatMap liteEncode ++ tail

/-- feeding a valid stream chunk by chunk equals feeding it at once (the buffer is the unconsumed suffix) -/
theorem liteFeedAll_eq_run : ∀ (chunks : List Bytes) (buf : Bytes), LitePending buf →
    LiteValidPrefix (buf ++ chunks.flatten) → liteFeedAll buf chunks = liteRun (buf ++ chunks.flatten) := by
  intro chunks
  induction chunks with
  | nil =>
    intro buf hb _
    simp [liteFeedAll, liteRun_pending hb]
  | cons c cs ih =>
    intro buf hb hvp
    obtain ⟨ps, tail, b, hwf, htail, hv⟩ := hvp
    simp only [List.flatten_cons] at hv ⊢
    have hv' : (buf ++ c) ++ (cs.flatten ++ b) = ps.flatMap liteEncode ++ tail := by simpa using hv
    obtain ⟨ps1, ps2, buf1, e1, e2, e3, e4⟩ := lite_prefix_decomp ps tail htail hwf _ _ hv'
    have hwf1 : ∀ p ∈ ps1, LiteWF p := fun q hq => hwf q (by simp [e1, hq])
    have hwf2 : ∀ p ∈ ps2, LiteWF p := fun q hq => hwf q (by simp [e1, hq])
    have hrun1 : liteFeed buf c = (.ok ps1, buf1) := by
      rw [liteFeed_eq_run, e2, liteRun_stream ps1 hwf1, liteRun_pending e3]; simp [prependRes]
    have hih := ih buf1 e3 ⟨ps2, tail, b, hwf2, htail, by simpa using e4⟩
    have hrhs : liteRun (buf ++ (c ++ cs.flatten)) = prependRes ps1 (liteRun (buf1 ++ cs.flatten)) := by
      rw [← List.append_assoc, e2, List.append_assoc, liteRun_stream ps1 hwf1]
    rw [hrhs, liteFeedAll, hrun1]
    simp only []
    rw [hih]
    cases liteRun (buf1 ++ cs.flatten) with
    | mk r b' => cases r <;> rfl

/-- **chunking independence**: however a valid lite stream (whole packets followed by an incomplete one) is cut into
    reads — empty reads included — the same packets come out and the same residue stays in the buffer -/
theorem lite_chunking (ps : List Packet) (hwf : ∀ p ∈ ps, LiteWF p) (tail : Bytes) (ht : LitePending tail)
    (chunks : List Bytes) (hc : chunks.flatten = ps.flatMap liteEncode ++ tail) :
    liteFeedAll [] chunks = (.ok ps, tail) := by
  rw [liteFeedAll_eq_run chunks [] (Or.inl rfl) ⟨ps, tail, [], hwf, ht, by simp [hc]⟩]
  simp only [List.nil_append, hc]
  rw [liteRun_stream ps hwf, liteRun_pending ht]
  simp [prependRes]


theorem liteFeed_concat (ps : List Packet) (hwf : ∀ p ∈ ps, LiteWF p) :
    liteFeed [] (ps.flatMap liteEncode) = (.ok ps, []) := by
  rw [liteFeed_eq_run, List.nil_append]
  have := liteRun_stream ps hwf []
  rw [List.append_nil] at this
  rw [this, liteRun_pending (Or.inl rfl)]
  simp [prependRes]

theorem liteFeed_encode (p : Packet) (h : LiteWF p) : liteFeed [] (liteEncode p) = (.ok [p], []) := by
  have := liteFeed_concat [p] (by simpa using h)
  simpa using this

end Nx.Prudp
