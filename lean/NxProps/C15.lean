import NxProofs.NexErrors
/-! # C15 — NEX value encodings are lossless (statements; proofs in NxProofs/Nex*.lean) -/
namespace Nx.C15
open Nx Nx.Nex

/-- a table that passes the (kernel-evaluated) checks is a bijection between its codes and names -/
theorem error_table_bijective_of_checks (fuel : Nat) (codes keys : List Nat)
    (hlen : Nat.beq codes.length keys.length = true)
    (hcodes : (sortedN codes || nodupN codes) = true)
    (hkeys : nodupN keys = true)
    (hvalid : eqN ((genNames fuel keys).map encodeName) keys = true)
    (hbelow : allBelowN errorMask codes = true)
    (hres : (notInN (encodeName successName) keys && notInN (encodeName unknownName) keys) = true) :
    TableBijective (genTable fuel codes keys) :=
  tableBijective_of_gen fuel codes keys hlen hcodes hkeys hvalid hbelow hres

end Nx.C15
