"""C11 — calls in BOTH directions on one connection (a schedule axis the property quantifies over).

An `RMCClient` is one object per connection; the side that has servers registered may at the same time have calls of its
own outstanding towards the peer (`client.request(...)` from another task: a server asking its client for something, a
client that registered servers for notifications). The receive loop `start()` serves both: requests go to
`handle_request`, responses wake the caller. The property speaks of EVERY incoming request: it is answered exactly once
with the right outcome whatever calls of the other direction are outstanding, and those calls complete when (and only
when) their answers arrive.

One session = one connection: the real `RMCClient.start(servers)` against the raw peer of harness/rmc_server_sim.py,
plus one task per outgoing call. The peer plays a SCHEDULE, one event at a time (the next event after everything the
library can do has been done):
  {"ev": "call", "protocol", "method", "body", "noresponse"}   a task of the served side calls `client.request(...)`
  {"ev": "req", "case": <case of rmc_server_sim>}               the peer sends a request (scripted user method)
  {"ev": "ans", "call": i, "kind": "ok"|"err", "body"|"code"}   the peer answers the i-th call (with the call id it saw on the wire)
  {"ev": "stray", "kind": ..., "call_id": n}                    a response nobody waits for (unknown / already answered id)
What is recorded for a `req` event is exactly what rmc_server_sim records (so the same oracle and the same model replay
apply); for the other events: the datagrams sent and which calls completed with what.
"""
import itertools, struct, asyncio
import anyio
from nintendo.nex import rmc, common
import rmc_server_sim as R
import rmc_frames as FR

SETTLE = 4            # consecutive quiet scheduler rounds (loop at recv(), nothing sent, nothing completed) that end an event
MAX_ROUNDS = 400


def make_success(protocol, method, call_id, body):
    """success response datagram, written independently of RMCMessage.encode"""
    p = bytes([protocol]) if protocol < 0x7F else bytes([0x7F]) + struct.pack("<H", protocol)
    payload = p + b"\x01" + struct.pack("<II", call_id, method | 0x8000) + body
    return struct.pack("<I", len(payload)) + payload


def make_error(protocol, call_id, code):
    p = bytes([protocol]) if protocol < 0x7F else bytes([0x7F]) + struct.pack("<H", protocol)
    payload = p + b"\x00" + struct.pack("<II", code, call_id)
    return struct.pack("<I", len(payload)) + payload


def parse_request(data):
    """-> dict(protocol, call_id, method, body) of a request datagram, or None (independent of RMCMessage.parse)"""
    if len(data) < 5: return None
    (ln,) = struct.unpack_from("<I", data)
    p = data[4:]
    if ln != len(p) or not p[0] & 0x80: return None
    if p[0] == 0xFF:
        if len(p) < 3: return None
        proto = struct.unpack_from("<H", p, 1)[0]; p = p[3:]
    else:
        proto = p[0] & 0x7F; p = p[1:]
    if len(p) < 8: return None
    cid, meth = struct.unpack_from("<II", p)
    return {"protocol": proto, "call_id": cid, "method": meth, "body": p[8:]}


async def run_session(srvinfos, events, minor=0, prebuilt=None):
    """-> list of records, one per event (a `req` record has the fields of rmc_server_sim.run_session)"""
    cell, servers = prebuilt if prebuilt else R.prebuild(srvinfos)
    peer = R.Peer(minor)
    S = R.config_settings(minor)
    if any(e["ev"] == "req" and e["case"].get("ref") for e in events): cell.schema = FR.schema_for(S)
    client = rmc.RMCClient(S, peer)
    state = {"loop": "alive"}
    calls = []      # per outgoing call: {"done": None | ["body", hex] | ["rmc", code] | ["exc", type name], "wire": call id seen on the wire}

    async def loop():
        try:
            await client.start(servers)
            state["loop"] = "returned"
        except BaseException as e:
            if isinstance(e, asyncio.CancelledError) and state.get("teardown"): raise
            state["loop"] = "crash:" + type(e).__name__

    async def caller(i, ev):
        try:
            body = await client.request(ev["protocol"], ev["method"], bytes.fromhex(ev["body"]), ev.get("noresponse", False))
            calls[i]["done"] = ["none"] if body is None else ["body", bytes(body).hex()]
        except common.RMCError as e:
            calls[i]["done"] = ["rmc", e.result().code()]
        except BaseException as e:
            if isinstance(e, asyncio.CancelledError) and state.get("teardown"):
                calls[i]["done"] = calls[i]["done"] or ["cancelled-at-teardown"]; raise
            calls[i]["done"] = ["exc", type(e).__name__]

    def snapshot(): return (len(peer.sent), tuple(repr(c["done"]) for c in calls), state["loop"])

    async def settle():
        quiet, n, last = 0, 0, snapshot()
        while n < MAX_ROUNDS and quiet < SETTLE:
            await anyio.sleep(0); n += 1
            now = snapshot()
            if peer.idle and not peer.inbox and now == last: quiet += 1
            elif state["loop"] != "alive" and now == last: quiet += 1
            elif not peer.idle and now == last and n >= 60: quiet += 1      # the loop sits somewhere else than recv() and nothing moves
            else: quiet = 0
            last = now
        return not (peer.idle or state["loop"] != "alive")

    records = []
    async with anyio.create_task_group() as tg:
        tg.start_soon(loop)
        for _ in range(3): await anyio.sleep(0)
        for ev in events:
            before = [c["done"] for c in calls]
            peer.sent = []
            peer.send_yields = 0
            rec = {"ev": ev["ev"]}
            if state["loop"] != "alive":
                rec["skipped"] = True; records.append(rec); continue
            if ev["ev"] == "call":
                calls.append({"done": None, "wire": None, "noresponse": bool(ev.get("noresponse"))})
                tg.start_soon(caller, len(calls) - 1, ev)
            elif ev["ev"] == "req":
                case = ev["case"]
                cell.script = case["script"]; cell.called = None; cell.observed = None; cell.value_error = None; cell.observed_type = None
                cell.calls = []; cell.handled = []
                cell.ref = case.get("ref"); cell.args = None
                peer.send_yields = case["script"].get("send_yields", 0)
                peer.push(bytes.fromhex(case["datagram"]))
            elif ev["ev"] == "ans":
                c = calls[ev["call"]]
                cid = c["wire"] if c["wire"] is not None else 0xDEAD0000 + ev["call"]
                rec["call_id"] = cid
                peer.push(make_success(ev["protocol"], ev["method"], cid, bytes.fromhex(ev["body"])) if ev["kind"] == "ok"
                          else make_error(ev["protocol"], cid, ev["code"]))
            elif ev["ev"] == "stray":
                peer.push(make_success(ev["protocol"], ev["method"], ev["call_id"], bytes.fromhex(ev.get("body", ""))) if ev["kind"] == "ok"
                          else make_error(ev["protocol"], ev["call_id"], ev["code"]))
            stuck = await settle()
            sent = [bytes(d) for d in peer.sent]
            if ev["ev"] == "call":
                rq = [parse_request(d) for d in sent]
                if len(rq) == 1 and rq[0] is not None: calls[-1]["wire"] = rq[0]["call_id"]
            rec.update({"sent": [d.hex() for d in sent], "loop": state["loop"], "hang": stuck, "closed": client.closed,
                        "completed": [[i, c["done"]] for i, (c, b) in enumerate(zip(calls, before + [None] * len(calls))) if c["done"] is not None and b is None],
                        "outstanding": [i for i, c in enumerate(calls) if c["done"] is None]})
            if ev["ev"] == "req":
                rec.update({"observed": cell.observed, "called": cell.called is not None, "observed_type": cell.observed_type,
                            "value_error": cell.value_error, "calls": cell.calls, "handled": cell.handled, "args": cell.args})
            records.append(rec)
        state["teardown"] = True
        tg.cancel_scope.cancel()
    return records


def run_sessions(jobs, prebuilt=None):
    """jobs: list of (srvinfos, events, minor)"""
    async def main():
        return [await run_session(s, e, m, prebuilt=prebuilt) for s, e, m in jobs]
    return anyio.run(main)


# ------------------------------------------------------------------ the oracle for the CALL side of a schedule
def judge_calls(events, records):
    """-> None or (key, why, index of the event): what the property says about the other direction of the connection —
    an outgoing call puts exactly one request on the wire, completes when its answer has arrived (with that answer) and
    not before; a peer request never completes, fails or answers a call; nothing but its response is sent for it"""
    calls = []     # per call: event, answered-by event (or None)
    for k, (ev, rec) in enumerate(zip(events, records)):
        if rec.get("skipped"): return None          # the loop had ended: judged at the request that ended it
        if ev["ev"] == "call":
            calls.append({"ev": ev, "answer": None, "done": None})
            i = len(calls) - 1
            rq = [parse_request(bytes.fromhex(d)) for d in rec["sent"]]
            if rec["hang"]: return ("call-hang", "after the served side called request(protocol %d, method %d) the receive loop was not at recv() any more" % (ev["protocol"], ev["method"]), k)
            if len(rq) != 1 or rq[0] is None or (rq[0]["protocol"], rq[0]["method"], rq[0]["body"].hex()) != (ev["protocol"], ev["method"], ev["body"]):
                return ("call-not-sent", "request(protocol %d, method %d, body %s) of the served side put %s on the wire" % (ev["protocol"], ev["method"], ev["body"] or "-", rec["sent"]), k)
            ids = [c.get("wire") for c in calls[:-1] if c["done"] is None and c.get("wire") is not None]
            calls[i]["wire"] = rq[0]["call_id"]
            if rq[0]["call_id"] in ids: return ("call-id-reused", "call id %d is used by two outstanding calls" % rq[0]["call_id"], k)
            want = [[i, ["none"]]] if ev.get("noresponse") else []
            if rec["completed"] != want:
                return ("call-completed-early", "the call completed (%s) before the peer answered it" % rec["completed"], k)
            if ev.get("noresponse"): calls[i]["done"] = ["none"]
            continue
        if ev["ev"] == "ans":
            i = ev["call"]
            want = ["body", ev["body"]] if ev["kind"] == "ok" else ["rmc", ev["code"] | 0x80000000]
            if calls[i]["done"] is not None: want = None           # (a second answer: dropped)
            got = [d for j, d in rec["completed"] if j == i]
            others = [[j, d] for j, d in rec["completed"] if j != i]
            if rec["sent"]: return ("answer-triggers-send", "the peer's answer to call %d made the library send %s" % (i, rec["sent"]), k)
            if others: return ("answer-completes-other-call", "the peer's answer to call %d (call id %s) completed other calls: %s" % (i, rec.get("call_id"), others), k)
            if want is not None:
                if not got:
                    return ("call-never-completes", "the served side's own call %d (call id %s) did not complete after the peer answered it (%s); outstanding afterwards: %s%s"
                            % (i, rec.get("call_id"), "success, body " + (ev["body"] or "-") if ev["kind"] == "ok" else "error %#x" % ev["code"], rec["outstanding"],
                               "; the receive loop is not at recv()" if rec["hang"] else ""), k)
                if got[0] != want: return ("call-wrong-outcome", "call %d completed with %s, the peer answered %s" % (i, got[0], want), k)
                calls[i]["done"] = want
            elif got: return ("call-completed-twice", "call %d completed again: %s" % (i, got), k)
            continue
        if ev["ev"] == "stray":
            if rec["sent"] or rec["completed"]:
                return ("stray-response", "a response with call id %d that no call waits for made the library send %s / complete %s" % (ev["call_id"], rec["sent"], rec["completed"]), k)
            if rec["hang"] or rec["loop"] != "alive": return ("stray-response", "a response with call id %d that no call waits for: loop %s" % (ev["call_id"], "not at recv()" if rec["hang"] else rec["loop"]), k)
            continue
        # a peer request: judged as a request by corr_C11.judge_case; here only what it may not do to the calls
        if rec["completed"]:
            return ("request-completes-call", "a request of the peer (protocol %d method %d) completed outgoing calls: %s" % (ev["case"]["protocol"], ev["case"]["method"], rec["completed"]), k)
    return None


def describe(events, upto=None):
    """one line per event (for violation texts)"""
    out = []
    for k, ev in enumerate(events if upto is None else events[:upto + 1]):
        if ev["ev"] == "call": out.append("served side calls request(%d, %d%s)" % (ev["protocol"], ev["method"], ", noresponse" if ev.get("noresponse") else ""))
        elif ev["ev"] == "req": out.append("peer requests %s.m%d [%s]" % (ev["case"]["class"], ev["case"]["method"], ev["case"]["kind"]))
        elif ev["ev"] == "ans": out.append("peer answers call %d (%s)" % (ev["call"], ev["kind"]))
        else: out.append("peer sends a response with call id %d nobody waits for" % ev["call_id"])
    return " ; ".join(out)


# ------------------------------------------------------------------ schedules
def interleavings(n_req, n_calls, rng, limit):
    """schedules as lists of tokens: ("call", i) ("req", j) ("ans", i); every call precedes its answer; requests in the given
    order (their order is permuted by the caller). Exhaustive when there are at most `limit`, else a sample (always with the
    extremes: everything answered before / after all requests)."""
    toks = [("req", j) for j in range(n_req)]
    def place(seq, items):
        # all ways of inserting `items` (in order) into seq
        if not items: yield list(seq); return
        first, rest = items[0], items[1:]
        for pos in range(len(seq) + 1):
            for tail in place(seq[pos:], rest):
                yield list(seq[:pos]) + [first] + tail
    def all_for(order):
        # calls (in invocation order) and answers (in `order`) inserted; an answer after its call
        base = [list(toks)]
        for i in range(n_calls):
            nxt = []
            for s in base:
                lo = max([k for k, t in enumerate(s) if t[0] == "call"], default=-1) + 1      # calls keep their invocation order
                for pos in range(lo, len(s) + 1):
                    nxt.append(s[:pos] + [("call", i)] + s[pos:])
            base = nxt
        for i in order:
            nxt = []
            for s in base:
                lo = s.index(("call", i)) + 1
                for pos in range(lo, len(s) + 1):
                    nxt.append(s[:pos] + [("ans", i)] + s[pos:])
            base = nxt
        return base
    out = []
    if n_calls <= 2:
        for order in itertools.permutations(range(n_calls)):
            out += all_for(order)
    else:
        for _ in range(limit * 6):
            s = list(toks)
            lo = 0
            for i in range(n_calls):
                lo = rng.randint(lo, len(s)) if rng.random() < 0.6 else lo
                s.insert(lo, ("call", i)); lo += 1
            for i in rng.sample(range(n_calls), n_calls):
                s.insert(rng.randint(s.index(("call", i)) + 1, len(s)), ("ans", i))
            out.append(s)
    out = [list(x) for x in dict.fromkeys(tuple(s) for s in out)]
    if len(out) <= limit: return out
    must = [s for s in out if is_extreme(s)]
    rest = [s for s in out if not is_extreme(s)]
    # prefer schedules in which requests arrive WHILE calls are outstanding
    rest.sort(key=lambda s: -overlap(s) + rng.random())
    return (rng.sample(must, min(len(must), max(2, limit // 6))) + rest)[:limit]


def overlap(s):
    """number of requests that arrive while at least one call is outstanding"""
    open_, n = set(), 0
    for t in s:
        if t[0] == "call": open_.add(t[1])
        elif t[0] == "ans": open_.discard(t[1])
        elif open_: n += 1
    return n


def is_extreme(s):
    return overlap(s) in (0, sum(1 for t in s if t[0] == "req"))
