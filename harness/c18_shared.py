"""C18, round 11 — ONE client object shared by TWO tasks.

Task A runs a public call of a Switch client; task B calls setters of the SAME object while A is suspended inside
the call (between its requests, inside the request callback, at any other scheduling point the call may have).
The property ("the request carries that version's user agent, API version, key generation and digest", era
consistency) is judged per single request: every request that reaches the request callback must be, as a whole
(callback it is handed to, host argument, TLS context and its client certificate, path, header set / order /
values, form or JSON members, MAC), the request of ONE configuration the object had since the call began —
never a mix of two.

Scheduling: both tasks live in one anyio task group; the request callback yields once to the event loop before it
answers, task B yields once per turn and applies its change(s) at turn k.  k = -1 is "before A ever ran", k = 0 the
first suspension of A, ... ; k is swept until B's turn comes after A has finished, so EVERY scheduling point of A
is visited, whatever number of requests or other awaits the call makes.

Reference: the same call on a freshly constructed client that was configured (same setters, same order) to
configuration j and is used by one task only; request i of the shared run must equal request i of the reference of
some configuration j that had been reached when the request was handed over.  The references are also replayed on
the compiled Lean model (same `call` lines as the exhaustive correspondence, with hosts / power state / region)."""
import re
import anyio
from anynet import tls
import switch_cases as sc

DEV = 0x6265A1B2C3D4E5F6
KNOWN_SETTERS = {"set_request_callback", "set_context", "set_certificate", "set_power_state", "set_platform_region",
                 "set_host", "set_hosts", "set_system_version"}
HOSTS_B = {"dragons": ["d2.example:8443", "dt2.example", "t2.example"]}
CERT, KEY = object(), object()          # TLSContext.set_certificate only stores them


def mask_random(data):
    return re.sub(rb"(cert|cert_key)=[A-Za-z0-9_%-]+", rb"\1=*", data)


def setters_of(cl):
    return sorted(n for n in dir(cl) if n.startswith("set_") and callable(getattr(cl, n)))


class Env:
    """one client object with its labelled callbacks / contexts"""
    def __init__(self, mods, client, call):
        self.client, self.call = client, call
        self.devid = DEV if client in ("dragons", "sun", "atumn") else None
        self.cl = sc.make_client(mods, client, self.devid)
        self.ctx0 = self.cl.context
        self.ctx1 = tls.TLSContext()
        self.log = []          # (callback label, host argument, context label, certificate label, request bytes with the random ticket key masked)
        self.raw = []          # the request bytes as they were
        self.in_cb = False
        self.cbs = {0: self._make_cb(0), 1: self._make_cb(1)}
        self.cl.set_request_callback(self.cbs[0])

    def _label_ctx(self, context):
        c = 0 if context is self.ctx0 else 1 if context is self.ctx1 else "?"
        certs, key = getattr(context, "_certs", None), getattr(context, "_key", None)
        k = 0 if certs is None and key is None else 1 if (certs == [CERT] and key is KEY) else "?"
        return c, k

    def _make_cb(self, label):
        async def cb(host, req, context):
            data = req.encode()
            c, k = self._label_ctx(context)
            self.raw.append(data)
            self.log.append((label, host, c, k, mask_random(data)))
            self.in_cb = True
            try:
                await anyio.sleep(0)          # task A is suspended here: task B gets a turn
            finally:
                self.in_cb = False
            return sc.good_response(self.client, self.call, req)
        return cb

    def apply(self, change):
        """change = list of (aspect, value); executed without an await in between"""
        cl = self.cl
        for what, v in change:
            if what == "ver": cl.set_system_version(v)
            elif what == "hosts":
                if self.client == "dragons": cl.set_hosts(*v)
                else: cl.set_host(v[0])
            elif what == "power": cl.set_power_state(v)
            elif what == "region": cl.set_platform_region(v)
            elif what == "ctx": cl.set_context(self.ctx1 if v else self.ctx0)
            elif what == "cert": cl.set_certificate(CERT, KEY)
            elif what == "cb": cl.set_request_callback(self.cbs[v])
            else: raise ValueError(what)


def cfg_key(cfg):
    return tuple((k, tuple(v) if isinstance(v, list) else v) for k, v in cfg)


def show_change(client, change):
    out = []
    for what, v in change:
        if what == "ver": out.append("set_system_version(%r)" % (v,))
        elif what == "hosts": out.append("set_hosts(%s)" % ", ".join(map(repr, v)) if client == "dragons" else "set_host(%r)" % v[0])
        elif what == "power": out.append("set_power_state(%r)" % v)
        elif what == "region": out.append("set_platform_region(%r)" % v)
        elif what == "ctx": out.append("set_context(<another TLSContext>)")
        elif what == "cert": out.append("set_certificate(<cert>, <key>)")
        elif what == "cb": out.append("set_request_callback(<callback #%d>)" % v)
    return "; ".join(out)


async def do_call(cl, client, call, args):
    """one public call, or a flow: several public calls one after the other by the same task (call == "flow", args = [(call, args), ...])"""
    if call == "flow":
        for c, a in args:
            await sc.invoke(cl, client, c, a)
    else:
        await sc.invoke(cl, client, call, args)


def flows(client):
    """what a user of the client does in one task: the documented sequences of calls (challenge then auth, authenticate then login ...)"""
    V = {c: (c, a) for c, a, t in reversed(sc.call_variants(client)) if t in ("plain", "default", "baas", "app", "challenge", "jwt-ok", "app-country", "penne", "fields")}
    def seq(*names): return [V[n] for n in names if n in V]
    if client == "aauth": return [("flow", seq("challenge", "auth_gamecard"), "challenge+gamecard"), ("flow", seq("challenge", "auth_system"), "challenge+system")]
    if client == "baas": return [("flow", seq("authenticate", "login", "update_presence", "get_friends"), "authenticate+login+presence+friends")]
    if client == "dauth": return [("flow", seq("device_token", "edge_token"), "device+edge")]
    if client == "dragons": return [("flow", seq("publish_elicense_archive", "report_elicense_archive", "exercise_elicense"), "publish+report+exercise")]
    if client == "five": return [("flow", seq("get_unread_invitation_count", "get_inbox", "mark_as_read", "send_invitation"), "count+inbox+read+send")]
    if client == "atumn": return [("flow", seq("download_content_metadata", "download_content"), "metadata+content")]
    return []


async def run_plain(mods, client, call, args, config):
    """reference: a fresh client configured by `config` (a list of changes), one task"""
    env = Env(mods, client, call)
    try:
        for ch in config: env.apply(ch)
    except Exception as e:
        return {"setup_failed": repr(e)}
    try:
        await do_call(env.cl, client, call, args)
        out = ("ok",)
    except Exception as e:
        out = ("err", sc.exc_name(e))
    return {"reqs": list(env.log), "raw": list(env.raw), "outcome": out}


async def run_shared(mods, client, call, args, base, schedule, max_turns=24):
    """task A: the call; task B: applies schedule[k] at its turn k. Returns the requests with the number of
    changes applied when each was handed over, where B's changes fell, the outcome."""
    env = Env(mods, client, call)
    for ch in base: env.apply(ch)
    st = {"done": False, "applied": 0, "where": [], "outcome": None, "setter_exc": None, "late": False}
    handed = []

    class Log(list):
        def append(self, x):
            handed.append(st["applied"])
            list.append(self, x)
    env.log = Log()
    sched = dict(schedule)
    last = max(sched)

    async def task_a():
        try:
            await do_call(env.cl, client, call, args)
            st["outcome"] = ("ok",)
        except Exception as e:
            st["outcome"] = ("err", sc.exc_name(e))
        finally:
            st["done"] = True

    async def task_b():
        turn = -1
        while turn <= last and turn < max_turns:
            if turn in sched:
                if st["done"]:
                    st["late"] = True
                    return
                n = len(env.log)
                st["where"].append("before task A has run" if turn == -1 and n == 0 and not env.in_cb else
                                   ("while task A awaits the answer to its request #%d" % n) if env.in_cb else
                                   "while task A is suspended after %d request(s), outside the request callback" % n)
                try:
                    env.apply(sched[turn])
                except Exception as e:
                    st["setter_exc"] = repr(e)
                    return
                st["applied"] += 1
            turn += 1
            await anyio.sleep(0)

    async with anyio.create_task_group() as tg:
        tg.start_soon(task_b)
        tg.start_soon(task_a)
    return {"reqs": list(env.log), "handed": handed, "outcome": st["outcome"], "where": st["where"], "late": st["late"],
            "setter_exc": st["setter_exc"], "applied": st["applied"]}


# ------------------------------------------------------------------------------------------------
def parts_of(req):
    """named parts of one request tuple, for the report: which configuration does each part belong to"""
    label, host, c, k, data = req
    method, path, query, headers, body = sc.split_request(data)
    P = {"callback": label, "host argument": host, "TLS context": c, "client certificate": k, "method": method, "path": path,
         "query": query, "header order": [h for h, _ in headers]}
    for h, v in headers: P["header " + h] = v
    ct = dict(headers).get("Content-Type", "")
    if body and "json" not in ct:
        try:
            pairs = sc.form_pairs(body.decode())
            P["body members"] = [a for a, _ in pairs]
            for a, b in pairs: P["body " + a] = b
        except Exception:
            P["body"] = body.hex()
    else:
        P["body"] = body.decode("utf-8", "replace")
    return P


def explain(req, refs):
    """refs: list of (name, req or None). For every part: the configurations it agrees with."""
    mine = parts_of(req)
    theirs = [(n, parts_of(r)) for n, r in refs if r is not None]
    out, owners = {}, set()
    for part, v in mine.items():
        agree = [n for n, p in theirs if p.get(part) == v]
        if len(agree) != len(theirs):
            out[part] = {"value": v, "agrees_with": agree or "no configuration"}
            owners.add(tuple(agree))
    return out


def version_pairs(rng, versions, quick):
    vs = sorted(versions)
    pairs = [(vs[0], vs[-1]), (vs[-1], vs[0])]
    for b in sc.BOUNDARIES:
        lo = [v for v in vs if v < b]; hi = [v for v in vs if v >= b]
        if lo and hi: pairs += [(lo[-1], hi[0]), (hi[0], lo[-1])]
    if quick:
        for _ in range(4):
            a, b = rng.sample(vs, 2); pairs.append((a, b))
    else:
        pairs += [(a, b) for a, b in zip(vs, vs[1:])] + [(b, a) for a, b in zip(vs, vs[1:])]
        for _ in range(60):
            a, b = rng.sample(vs, 2); pairs.append((a, b))
    seen, out = set(), []
    for p in pairs:
        if p not in seen: seen.add(p); out.append(p)
    return out


def chosen_variants(client):
    per, chosen = {}, []
    for call, args, tag in sc.call_variants(client):
        if tag.startswith(("lang:", "nolang:")): continue
        # the accepted shapes (a refused argument never reaches a request)
        if tag in ("too-many-receivers", "data-too-large", "message-too-long", "bad-language"): continue
        if per.get(call, 0) < 2:
            per[call] = per.get(call, 0) + 1; chosen.append((call, args, tag))
    return chosen


def plans(rng, mods, client, versions, quick):
    """(base configuration, schedule-maker) for this client: base = list of changes applied before the call,
    changes = list of changes task B may apply"""
    probe = sc.make_client(mods, client, DEV if client in ("dragons", "sun", "atumn") else None)
    have = set(setters_of(probe))
    hosts_b = HOSTS_B.get(client, ["other.example:8443"])
    P = []          # (base, [change, ...])   one change = list of (aspect, value)
    for a, b in version_pairs(rng, versions, quick):
        P.append(([[("ver", a)]], [[("ver", b)]]))
    # there and back again while the call is in flight (three eras: a, b, a)
    vs = sorted(versions)
    for a, b in [(vs[0], vs[-1]), (vs[-1], vs[0])] + [tuple(rng.sample(vs, 2)) for _ in range(2 if quick else 20)]:
        P.append(([[("ver", a)]], [[("ver", b)], [("ver", a)]]))
    bases = ["init", max(v for v in vs if v < 1800), min(v for v in vs if v >= 1800)] if any(v < 1800 for v in vs) and any(v >= 1800 for v in vs) else ["init"]
    other = []
    if "set_host" in have or "set_hosts" in have: other.append([("hosts", hosts_b)])
    if "set_power_state" in have: other.append([("power", "HA")])
    if "set_platform_region" in have: other.append([("region", 2)])
    if "set_context" in have: other.append([("ctx", 1)])
    if "set_certificate" in have: other.append([("cert", 1)])
    if "set_request_callback" in have: other.append([("cb", 1)])
    for bv in bases:
        base = [] if bv == "init" else [[("ver", bv)]]
        for ch in other:
            P.append((base, [ch]))
        # everything at once (one task-B turn: no await between the setters), and one after the other at successive turns
        nv = rng.choice([v for v in vs if v != bv])
        allc = [("ver", nv)] + [x for ch in other for x in ch if x[0] != "cert"]
        P.append((base, [allc]))
        P.append((base, [[x] for x in allc][:4]))
    return P, sorted(have - KNOWN_SETTERS)


def run(ctx, mods, versions, drv, tbl_lines, diffs):
    rng = ctx.rng
    quick = ctx.tier == "quick"
    stats = {"runs": 0, "references": 0, "requests_judged": 0, "requests_after_a_change": 0, "setter_calls": 0, "skipped_setter_raised": 0,
             "scheduling_points_max": 0, "plans_on_multi_request_calls": 0}
    unknown_setters = {}
    ref_cache, ref_cases = {}, []
    reported = set()

    def violation(key, what, replay):
        if key in reported: return        # one report per (client, call, setters): corr_C18 caps the number of CALLS per family
        reported.add(key)
        ctx.violation(key, what, replay)

    async def ref(client, call, args, tag, config):
        key = (client, call, tag, tuple(cfg_key(ch) for ch in config))
        if key not in ref_cache:
            r = await run_plain(mods, client, call, args, config)
            ref_cache[key] = r
            stats["references"] += 1
            # the same reference on the compiled model, when the configuration is one the `call` line can express
            flat = [x for ch in config for x in ch]
            asp = [a for a, _ in flat]
            if "setup_failed" not in r and len(set(asp)) == len(asp) and call != "flow":
                d = dict(flat)
                cfg = {}
                if "hosts" in d: cfg["hosts"] = d["hosts"]
                if "power" in d: cfg["power"] = d["power"]
                if "region" in d: cfg["region"] = d["region"]
                case = {"client": client, "devid": DEV if client in ("dragons", "sun", "atumn") else None, "ver": d.get("ver", "init"),
                        "cfg": cfg, "call": call, "args": args, "tag": "shared-ref:" + tag}
                ref_cases.append((case, r))
        return ref_cache[key]

    def configs_of(base, changes):
        """configuration j = base + the first j changes (as a list of changes in the order they were applied);
        a later value of an aspect replaces the earlier one (setters overwrite)"""
        out = []
        for j in range(len(changes) + 1):
            seq = list(base) + list(changes[:j])
            last, order = {}, []
            for ch in seq:
                for a, v in ch:
                    if a not in last: order.append(a)
                    last[a] = v
            out.append([[(a, last[a])] for a in order])
        return out

    async def one(client, call, args, tag, base, changes, ks):
        schedule = list(zip(ks, changes))
        r = await run_shared(mods, client, call, args, base, schedule)
        stats["runs"] += 1
        if r["setter_exc"]:
            stats["skipped_setter_raised"] += 1      # judged by the set_system_version sweeps
            return r
        stats["setter_calls"] += r["applied"]
        cfgs = configs_of(base, changes)
        refs = [await ref(client, call, args, tag, c) for c in cfgs]
        if any("setup_failed" in x for x in refs): return r
        names = ["the configuration before task B's call"] + ["the configuration after task B's call #%d" % j for j in range(1, len(cfgs))]
        if len(cfgs) == 2: names[1] = "the configuration after task B's call"
        nontriv = bool(r["reqs"]) and r["applied"] > 0
        ctx.case(key="shared/%s/%s/%s/%s/%s/%s" % (client, call, tag, show_change(client, [x for ch in base for x in ch]), "|".join(show_change(client, c) for c in changes), ks[0]),
                 nontrivial=nontriv, tag="shared:%s.%s:%s" % (client, call, "+".join(sorted({a for ch in changes for a, _ in ch}))),
                 sample={"client": client, "call": call, "B": [show_change(client, c) for c in changes], "turns": list(ks), "where": r["where"],
                         "requests": len(r["reqs"])} if stats["runs"] % 997 == 0 else None)
        for i, (req, napplied) in enumerate(zip(r["reqs"], r["handed"])):
            stats["requests_judged"] += 1
            if napplied: stats["requests_after_a_change"] += 1
            cands = [(names[j], refs[j]["reqs"][i] if len(refs[j]["reqs"]) > i else None) for j in range(napplied + 1)]
            if any(c == req for _, c in cands): continue
            mixed = explain(req, cands)
            what = ("%s.%s (%s) on ONE client shared by two tasks: task A calls it at %s; task B calls %s %s. Request #%d of the call is the "
                    "request of NEITHER configuration: %s" %
                    (client, call, tag, show_change(client, [x for ch in base for x in ch]) or "the constructor default",
                     " then ".join(show_change(client, c) for c in changes[:napplied]) or "nothing yet", "; ".join(r["where"][:napplied]) or "", i + 1,
                     "; ".join("%s = %r belongs to %s" % (p, d["value"], d["agrees_with"]) for p, d in list(mixed.items())[:8])))
            violation("shared:%s:%s:%s" % (client, call, "+".join(sorted({a for ch in changes for a, _ in ch}))), what,
                          {"client": client, "device_id": env_dev(client), "call": call, "variant": tag, "args": repr(args)[:400],
                           "configured_before_the_call": show_change(client, [x for ch in base for x in ch]) or "constructor default",
                           "task_B_calls": [show_change(client, c) for c in changes], "task_B_turns": list(ks), "task_B_runs": r["where"],
                           "request_index": i, "request": show_req(req),
                           "single_task_requests": {n: (show_req(c) if c is not None else None) for n, c in cands},
                           "parts": {p: {"value": repr(d["value"])[:200], "agrees_with": d["agrees_with"]} for p, d in mixed.items()},
                           "reproduce": "harness/c18_shared.py: run_shared(mods, %r, %r, args, base, schedule) — request callback awaits once "
                                        "(anyio.sleep(0)) before answering; task B applies its change at turn k of `await anyio.sleep(0)`" % (client, call)})
        outs = [x["outcome"] for x in refs]
        if r["outcome"] not in outs:
            violation("shared-outcome:%s:%s" % (client, call),
                          "%s.%s (%s) on a client shared by two tasks ends with %r; with a single task it ends with %r" % (client, call, tag, r["outcome"], outs),
                          {"client": client, "call": call, "variant": tag, "args": repr(args)[:400], "task_B_calls": [show_change(client, c) for c in changes],
                           "task_B_runs": r["where"], "outcome": r["outcome"], "single_task_outcomes": outs})
        elif r["outcome"] == ("ok",) and len(r["reqs"]) not in [len(x["reqs"]) for x in refs if x["outcome"] == ("ok",)]:
            violation("shared-outcome:%s:%s" % (client, call),
                          "%s.%s (%s) on a client shared by two tasks issues %d request(s); with a single task %r" % (client, call, tag, len(r["reqs"]), [len(x["reqs"]) for x in refs]),
                          {"client": client, "call": call, "variant": tag, "task_B_calls": [show_change(client, c) for c in changes], "task_B_runs": r["where"],
                           "requests": [show_req(x) for x in r["reqs"]]})
        return r

    def env_dev(client): return DEV if client in ("dragons", "sun", "atumn") else None

    def show_req(req):
        label, host, c, k, data = req
        return {"callback": label, "host": host, "context": c, "certificate": k, "data": data.decode("utf-8", "replace")}

    async def main():
        for client in sc.CLIENTS:
            P, unknown = plans(rng, mods, client, versions, quick)
            if unknown: unknown_setters[client] = unknown
            for call, args, tag in chosen_variants(client) + flows(client):
                for base, changes in P:
                    n = len(changes)
                    # sweep the turn of the FIRST change over every scheduling point of A (the following changes at the following turns)
                    k = -1
                    while k < 24:
                        r = await one(client, call, args, tag, base, changes, tuple(range(k, k + n)))
                        stats["scheduling_points_max"] = max(stats["scheduling_points_max"], k + 1)
                        if r["late"] or r["setter_exc"] or r["applied"] < n: break
                        k += 1
                    if len(r["reqs"]) >= 2: stats["plans_on_multi_request_calls"] += 1
    anyio.run(main)

    # the references on the compiled model
    lines = [sc.model_line(case, {"caps": [{"data": d, "host": q[1]} for q, d in zip(r["reqs"], r["raw"])]}) for case, r in ref_cases]
    if lines:
        outs = drv.batch(tbl_lines + lines)[len(tbl_lines):]
        for (case, r), line, model in zip(ref_cases, lines, outs):
            real = ("ok " + " ".join(sc.hx(q[1]) + "|" + sc.hx(d) for q, d in zip(r["reqs"], r["raw"]))) if r["outcome"] == ("ok",) else "err " + r["outcome"][1]
            if real != model:
                diffs.append((case, None, line, real, model))
        ctx.traces_validated += len(lines)
    stats["model_lines"] = len(lines)
    if unknown_setters: stats["setters_not_driven"] = unknown_setters
    ctx.extra["shared_client"] = stats
