import NxModel.Nex.RmcServer
import NxModel.DriverUtil
/-! line-protocol driver for the RMC server model (stateful: the table of registered servers)
  clear                                         -> ok
  srv <protocol> <noresp 0|1> <methods>         -> ok     methods = `-` or `,`-joined id:supported(0|1):resp(n|s|o|m)
  react <hex datagram> <hres>                   -> send <hex> | silent | propagate | notreq | crash <Err>
  gen <protocol> <method> <extract> <user>      -> <hres>             (generated dispatch only)
  full <hex datagram> <extract> <user>          -> <hres> => <reaction>
  sbegin                                        -> ok     a new connection (request sequence) starts
  sreq <hex datagram> <extract> <user>          -> <hres> => <reaction> | dead    its next request, through `serveStep` (= `serve`)
  hres    = ret:<hex> | <exc>          exc = rmc:<int> | type | index | memory | key | other | base
  extract = ok | <exc>                 user = stub | raise:<exc> | ret:<good|wrong|missing>:<hres>
-/
open Nx Nx.Rmc Nx.RmcServer

def parseExc (s : String) : Option Exc :=
  match s.splitOn ":" with
  | ["rmc", c] => c.toInt?.map .rmcError
  | ["type"] => some .typeError
  | ["index"] => some .indexError
  | ["memory"] => some .memoryError
  | ["key"] => some .keyError
  | ["other"] => some .other
  | ["base"] => some .base
  | _ => none

def parseHres (s : String) : Option HandleResult :=
  match s.splitOn ":" with
  | ["ret", h] => (fromHex h).map .returned
  | _ => (parseExc s).map .raised

def showExc : Exc → String
  | .rmcError c => s!"rmc:{c}"
  | .typeError => "type" | .indexError => "index" | .memoryError => "memory"
  | .keyError => "key" | .other => "other" | .base => "base"

def showHres : HandleResult → String
  | .returned o => "ret:" ++ hexOut o
  | .raised e => showExc e

def showReaction : Reaction → String
  | .sends d => "send " ++ hexOut d
  | .silent => "silent"
  | .propagates => "propagate"

def parseMethod (s : String) : Option Method :=
  match s.splitOn ":" with
  | [i, sup, r] =>
    match i.toNat?, (if r = "n" then some RespKind.none else if r = "s" then some (.single false)
                      else if r = "o" then some (.single true) else if r = "m" then some .multi else none) with
    | some id, some resp => if sup = "0" ∨ sup = "1" then some { id, supported := sup = "1", resp } else none
    | _, _ => none
  | _ => none

def parseMethods (s : String) : Option (List Method) :=
  if s = "-" then some [] else (s.splitOn ",").mapM parseMethod

def parseUser (s : String) : Option User :=
  if s = "stub" then some .stub
  else if s.startsWith "raise:" then (parseExc (s.drop 6).toString).map .raises
  else if s.startsWith "ret:good:" then (parseHres (s.drop 9).toString).map (.returns .good)
  else if s.startsWith "ret:wrong:" then (parseHres (s.drop 10).toString).map (.returns .wrongType)
  else if s.startsWith "ret:missing:" then (parseHres (s.drop 12).toString).map (.returns .missingField)
  else none

def parseExtract (s : String) : Option (Option Exc) :=
  if s = "ok" then some none else (parseExc s).map some

def findServer (p : Nat) : List Server → Option Server
  | [] => none
  | s :: r => if s.protocol = p then some s else findServer p r

structure D where
  tbl : List Server
  alive : Bool

def stepTbl (tbl : List Server) (line : String) : List Server × String :=
  match line.splitOn " " with
  | ["clear"] => ([], "ok")
  | ["srv", p, nr, ms] =>
    match p.toNat?, parseMethods ms with
    | some p, some ms =>
      if nr = "0" ∨ nr = "1" then
        ({ protocol := p, noresponse := nr = "1", methods := ms } :: tbl.filter (·.protocol ≠ p), "ok")
      else (tbl, "bad-op")
    | _, _ => (tbl, "bad-op")
  | ["react", h, r] =>
    match fromHex h, parseHres r with
    | some d, some hres =>
      match decode d with
      | .error e => (tbl, "crash " ++ e.name)
      | .ok m => if m.mode ≠ 0 then (tbl, "notreq") else (tbl, showReaction (react (registryOf tbl) m hres))
    | _, _ => (tbl, "bad-op")
  | ["gen", p, m, ex, u] =>
    match p.toNat?, m.toNat?, parseExtract ex, parseUser u with
    | some p, some m, some ex, some u =>
      match findServer p tbl with
      | some srv => (tbl, showHres (generatedHandle srv m ex u))
      | none => (tbl, "nosrv")
    | _, _, _, _ => (tbl, "bad-op")
  | ["full", h, ex, u] =>
    match fromHex h, parseExtract ex, parseUser u with
    | some d, some ex, some u =>
      match decode d with
      | .error e => (tbl, "crash " ++ e.name)
      | .ok m =>
        if m.mode ≠ 0 then (tbl, "notreq") else
        match findServer m.protocol tbl, m.method with
        | some srv, some mid =>
          let hres := generatedHandle srv mid ex u
          (tbl, showHres hres ++ " => " ++ showReaction (react (registryOf tbl) m hres))
        | _, _ => (tbl, "nosrv => " ++ showReaction (react (registryOf tbl) m (.returned [])))
    | _, _, _ => (tbl, "bad-op")
  | _ => (tbl, "bad-op")

/-- `sbegin` starts a connection; `sreq <hex> <extract> <user>` is its next request, answered through
    `serveStep` (= `serve` over the whole sequence so far): `<hres> => <reaction>` or `dead`. -/
def stepLine (d : D) (line : String) : D × String :=
  match line.splitOn " " with
  | ["sbegin"] => ({ d with alive := true }, "ok")
  | ["sreq", h, ex, u] =>
    match fromHex h, parseExtract ex, parseUser u with
    | some data, some ex, some u =>
      match decode data with
      | .error e => (d, "crash " ++ e.name)
      | .ok m =>
        if m.mode ≠ 0 then (d, "notreq") else
        let hres : Option HandleResult := match findServer m.protocol d.tbl, m.method with
          | some srv, some mid => some (generatedHandle srv mid ex u)
          | _, _ => none
        let (alive', r) := serveStep (registryOf d.tbl) d.alive (m, hres.getD (.returned []))
        ({ d with alive := alive' },
         match r with
         | none => "dead"
         | some r => (match hres with | some h => showHres h | none => "nosrv") ++ " => " ++ showReaction r)
    | _, _, _ => (d, "bad-op")
  | _ => let (t, o) := stepTbl d.tbl line; ({ d with tbl := t }, o)

def main : IO Unit := runState ({ tbl := [], alive := true } : D) stepLine
