import NxModel.Switch.Http
/-!
# Request builders of the 3DS / Wii U clients: `nnas.NNASClient`, `nasc.NASCClient`, `hpp.HppClient`

Only what the documented setters influence: every configurable attribute, the setter that writes it and the
request field that reads it.  These clients have no request callback; the correspondence substitutes
`anynet.http.request` and compares the encoded request byte for byte.

Modelled **as repaired** by two proposed one-line fixes (the check reports the difference on the unrepaired
tree as known findings): `NASCClient.set_sdk_version` writes the attributes `login` reads
(fixes/C20_nasc_sdk_version.diff, defect D7); `HppClient.__init__` can load its certificate
(fixes/C20_hpp_cert.diff, defect D6 — the model has no notion of a failing constructor).
-/
namespace Nx.Api
open Nx Nx.Http

/-! ## nnas -/

structure Nnas where
  url : String := "account.nintendo.net"
  clientId : String := "a2efa818a34fa16b8afbc8a74eba3eda"
  clientSecret : String := "c91cdb5658bd4954ade78533a339cf9a"
  platformId : Nat := 1
  deviceType : Nat := 2
  deviceId : Option Nat := none
  serialNumber : Option String := none
  systemVersion : Nat := 0x260
  deviceCert : Option String := none
  region : Nat := 4
  country : String := "NL"
  language : String := "en"
  fpdVersion : Nat := 0
  environment : String := "L1"
  titleId : Option Nat := none
  titleVersion : Option Nat := none
  deriving DecidableEq, Repr, Inhabited

inductive NnasSet where
  | url (u : String) | clientId (s : String) | clientSecret (s : String) | platformId (n : Nat) | deviceType (n : Nat)
  | device (id : Nat) (serial : String) (systemVersion : Nat) (cert : Option String)
  | locale (region : Nat) (country language : String) | fpdVersion (n : Nat) | environment (e : String)
  | title (id version : Nat)
  deriving Repr

def Nnas.apply (s : Nnas) : NnasSet → Nnas
  | .url u => { s with url := u }
  | .clientId c => { s with clientId := c }
  | .clientSecret c => { s with clientSecret := c }
  | .platformId n => { s with platformId := n }
  | .deviceType n => { s with deviceType := n }
  | .device id serial sv cert => { s with deviceId := some id, serialNumber := some serial, systemVersion := sv, deviceCert := cert }
  | .locale r c l => { s with region := r, country := c, language := l }
  | .fpdVersion n => { s with fpdVersion := n }
  | .environment e => { s with environment := e }
  | .title id v => { s with titleId := some id, titleVersion := some v }

/-- `NNASClient.prepare` -/
def Nnas.prepare (s : Nnas) (auth cert : Option String) : Hdrs :=
  [("Host", s.url), ("X-Nintendo-Platform-ID", dec s.platformId), ("X-Nintendo-Device-Type", dec s.deviceType)] ++
  (match s.deviceId with | some d => [("X-Nintendo-Device-ID", dec d)] | none => []) ++
  (match s.serialNumber with | some n => [("X-Nintendo-Serial-Number", n)] | none => []) ++
  [("X-Nintendo-System-Version", hexU 4 s.systemVersion), ("X-Nintendo-Region", dec s.region), ("X-Nintendo-Country", s.country),
   ("Accept-Language", s.language), ("X-Nintendo-Client-ID", s.clientId), ("X-Nintendo-Client-Secret", s.clientSecret),
   ("Accept", "*/*"), ("X-Nintendo-FPD-Version", hexU 4 s.fpdVersion), ("X-Nintendo-Environment", s.environment)] ++
  (match s.titleId with
   | some t => [("X-Nintendo-Title-ID", hexU 16 t), ("X-Nintendo-Unique-ID", hexU 5 ((t / 256) % 1048576))]
   | none => []) ++
  (match s.titleVersion with | some v => [("X-Nintendo-Application-Version", hexU 4 v)] | none => []) ++
  (match cert with | some c => [("X-Nintendo-Device-Cert", c)] | none => []) ++
  (match auth with | some a => [("Authorization", "Bearer " ++ a)] | none => [])

/-- `login(username, password, password_type)` and `get_nex_token(access_token, game_server_id)`: (url, request) -/
def Nnas.login (s : Nnas) (user pw : String) (pwType : Option String) : String × Req :=
  (s.url, { method := "POST", path := "/v1/api/oauth20/access_token/generate", headers := s.prepare none s.deviceCert,
            body := .form ([("grant_type", some "password"), ("user_id", some user), ("password", some pw)] ++
                           (match pwType with | some t => [("password_type", some t)] | none => [])) })

def Nnas.getNexToken (s : Nnas) (token : String) (gameServerId : Nat) : String × Req :=
  (s.url, { method := "GET", path := "/v1/api/provider/nex_token/@me", params := some [("game_server_id", some (hexU 8 gameServerId))],
            headers := s.prepare (some token) none })

/-- the remaining public calls; all of them go through `prepare` -/
def Nnas.getServiceToken (s : Nnas) (token clientId : String) : String × Req :=
  (s.url, { method := "GET", path := "/v1/api/provider/service_token/@me", params := some [("client_id", some clientId)],
            headers := s.prepare (some token) none })

def Nnas.getProfile (s : Nnas) (token : String) : String × Req :=
  (s.url, { method := "GET", path := "/v1/api/people/@me/profile", headers := s.prepare (some token) none })

def Nnas.getMiis (s : Nnas) (pids : List Nat) : String × Req :=
  (s.url, { method := "GET", path := "/v1/api/miis", params := some [("pids", some (",".intercalate (pids.map dec)))],
            headers := s.prepare none none })

def Nnas.getPids (s : Nnas) (nnids : List String) : String × Req :=
  (s.url, { method := "GET", path := "/v1/api/admin/mapped_ids",
            params := some [("input_type", some "user_id"), ("output_type", some "pid"), ("input", some (",".intercalate nnids))],
            headers := s.prepare none none })

def Nnas.getNnids (s : Nnas) (pids : List Nat) : String × Req :=
  (s.url, { method := "GET", path := "/v1/api/admin/mapped_ids",
            params := some [("input_type", some "pid"), ("output_type", some "user_id"), ("input", some (",".intercalate (pids.map dec)))],
            headers := s.prepare none none })

/-- The documented place of every setter argument (docs/reference/nnas.md: "Changes the content of the `X-…` header"):
    the headers every request must carry after the setter was called with these arguments, **whatever the values**
    (0, the empty string, … included). -/
def NnasSet.fields : NnasSet → Hdrs
  | .url u => [("Host", u)]
  | .clientId c => [("X-Nintendo-Client-ID", c)]
  | .clientSecret c => [("X-Nintendo-Client-Secret", c)]
  | .platformId n => [("X-Nintendo-Platform-ID", dec n)]
  | .deviceType n => [("X-Nintendo-Device-Type", dec n)]
  | .device id serial sv _ => [("X-Nintendo-Device-ID", dec id), ("X-Nintendo-Serial-Number", serial), ("X-Nintendo-System-Version", hexU 4 sv)]
  | .locale r c l => [("X-Nintendo-Region", dec r), ("X-Nintendo-Country", c), ("Accept-Language", l)]
  | .fpdVersion n => [("X-Nintendo-FPD-Version", hexU 4 n)]
  | .environment e => [("X-Nintendo-Environment", e)]
  | .title id v => [("X-Nintendo-Title-ID", hexU 16 id), ("X-Nintendo-Unique-ID", hexU 5 ((id / 256) % 1048576)),
                    ("X-Nintendo-Application-Version", hexU 4 v)]

/-- the device certificate is sent by `login` only -/
def NnasSet.loginFields : NnasSet → Hdrs
  | .device _ _ _ (some c) => [("X-Nintendo-Device-Cert", c)]
  | _ => []

/-- the headers the reference calls "omitted by default" -/
def nnasOptionalHeaders : List String :=
  ["X-Nintendo-Device-ID", "X-Nintendo-Serial-Number", "X-Nintendo-Title-ID", "X-Nintendo-Unique-ID", "X-Nintendo-Application-Version"]

/-- which attribute group a setter writes (two setters of different groups do not disturb each other) -/
def NnasSet.kind : NnasSet → Nat
  | .url _ => 0 | .clientId _ => 1 | .clientSecret _ => 2 | .platformId _ => 3 | .deviceType _ => 4
  | .device .. => 5 | .locale .. => 6 | .fpdVersion _ => 7 | .environment _ => 8 | .title .. => 9

/-! ## nasc -/

structure Nasc where
  url : String := "nasc.nintendowifi.net"
  sdkMajor : Nat := 0
  sdkMinor : Nat := 0
  titleId : Option Nat := none
  titleVersion : Nat := 0
  productCode : String := "----"
  makerCode : String := "00"
  mediaType : Nat := 0
  romId : Option String := none
  serialNumber : Option String := none
  macAddress : String := ""
  fcdCert : Bytes := []
  deviceName : String := ""
  unitCode : String := "2"
  bssId : String             -- random by default (`secrets.token_hex(6)`): an input of the model
  apInfo : String := "01:0000000000"
  region : Nat := 3
  language : Nat := 2
  pid : Option Nat := none
  pidHmac : Option String := none
  password : Option String := none
  fpdVersion : Nat := 16
  environment : String := "L1"
  deriving DecidableEq, Repr

inductive NascSet where
  | url (u : String) | sdkVersion (major minor : Nat)
  | title (id version : Nat) (productCode makerCode : String) (mediaType : Nat) (romId : Option String)
  | device (serial mac : String) (fcdCert : Bytes) (name unitCode : String)
  | network (bssId apInfo : String) | locale (region language : Nat)
  | user (pid : Nat) (hmac : String) | password (pw : String) | fpdVersion (n : Nat) | environment (e : String)
  deriving Repr

/-- the setters; `set_title` refuses a cartridge without rom id (`ValueError`) -/
def Nasc.apply (s : Nasc) : NascSet → Except Err Nasc
  | .url u => .ok { s with url := u }
  | .sdkVersion a b => .ok { s with sdkMajor := a, sdkMinor := b }
  | .title id v pc mc mt rom =>
    if mt = 2 ∧ rom.isNone then .error .value
    else .ok { s with titleId := some id, titleVersion := v, productCode := pc, makerCode := mc, mediaType := mt, romId := rom }
  | .device serial mac cert name unit => .ok { s with serialNumber := some serial, macAddress := mac, fcdCert := cert, deviceName := name, unitCode := unit }
  | .network b a => .ok { s with bssId := b, apInfo := a }
  | .locale r l => .ok { s with region := r, language := l }
  | .user p h => .ok { s with pid := some p, pidHmac := some h, password := none }
  | .password pw => .ok { s with pid := none, pidHmac := none, password := some pw }
  | .fpdVersion n => .ok { s with fpdVersion := n }
  | .environment e => .ok { s with environment := e }

/-- Nintendo's base64 variant -/
def nascB64 (b : Bytes) : String := ((b64 b).replace "+" ".").replace "/" "-" |>.replace "=" "*"
def strBytes (s : String) : Bytes := s.toUTF8.toList

/-- UTF-16-LE of a string of BMP characters -/
def utf16le (s : String) : Bytes := s.toList.flatMap fun c => [b8 c.toNat, b8 (c.toNat / 256)]

def pad3 (n : Nat) : String := String.ofList (padLeft 3 '0' (digits 10 hexDigitL n))

/-- a form value before Nintendo's base64: text (UTF-8), UTF-16-LE text, or raw bytes -/
inductive RawV where
  | s (v : String)
  | u16 (v : String)
  | b (v : Bytes)
  deriving DecidableEq, Repr

def RawV.bytes : RawV → Bytes
  | .s v => strBytes v
  | .u16 v => utf16le v
  | .b v => v

/-- the `LOGIN` form before Nintendo's base64 is applied to every value -/
def Nasc.rawFields (s : Nasc) (title : Nat) (serial : String) (gameServerId : Nat) (nickname devtime : String) : List (String × RawV) :=
  [("gameid", .s (hexU 8 gameServerId)), ("sdkver", .s (pad3 s.sdkMajor ++ pad3 s.sdkMinor)),
   ("titleid", .s (hexU 16 title)), ("gamecd", .s s.productCode), ("gamever", .s (hexU 4 s.titleVersion)),
   ("mediatype", .s (dec s.mediaType))] ++
  (if s.mediaType = 2 then [("romid", .s (s.romId.getD ""))] else []) ++
  [("makercd", .s s.makerCode), ("unitcd", .s s.unitCode), ("macadr", .s s.macAddress),
   ("bssid", .s s.bssId), ("apinfo", .s s.apInfo), ("fcdcert", .b s.fcdCert), ("devname", .u16 s.deviceName),
   ("servertype", .s s.environment), ("fpdver", .s (hexU 4 s.fpdVersion)), ("devtime", .s devtime),
   ("lang", .s (hexU 2 s.language)), ("region", .s (hexU 2 s.region)), ("csnum", .s serial)] ++
  (match s.pidHmac with
   | some h => [("uidhmac", .s h), ("userid", .s (dec (s.pid.getD 0)))]
   | none => [("passwd", .s (s.password.getD ""))]) ++
  [("action", .s "LOGIN"), ("ingamesn", .s nickname)]

def Nasc.loginHeaders (s : Nasc) (gameServerId : Nat) : Hdrs :=
  [("Host", s.url), ("X-GameId", hexU 8 gameServerId), ("User-Agent", "CTR FPD/" ++ hexU 4 s.fpdVersion),
   ("Content-Type", "application/x-www-form-urlencoded"), ("Content-Type", "application/x-www-form-urlencoded")]

/-- `NASCClient.login(game_server_id, nickname)`; `devtime` is the formatted local time (an input) -/
def Nasc.login (s : Nasc) (gameServerId : Nat) (nickname devtime : String) : Except Err (String × Req) :=
  match s.titleId, s.serialNumber with
  | none, _ => .error .value
  | _, none => .error .value
  | some title, some serial =>
    if s.pid.isNone ∧ s.password.isNone then .error .value else
    .ok (s.url, { method := "POST", path := "/ac", headers := s.loginHeaders gameServerId,
                  body := .form ((s.rawFields title serial gameServerId nickname devtime).map fun (k, v) => (k, some (nascB64 v.bytes))) })

/-- `Nasc.login`'s form before base64, when the required setters have been called -/
def Nasc.form (s : Nasc) (gameServerId : Nat) (nickname devtime : String) : Option (List (String × RawV)) :=
  match s.titleId, s.serialNumber with
  | some t, some n => some (s.rawFields t n gameServerId nickname devtime)
  | _, _ => none

/-- The documented place of every setter argument in the `LOGIN` form (docs/reference/nasc.md), whatever the values. -/
def NascSet.fields : NascSet → List (String × RawV)
  | .url _ => []
  | .sdkVersion a b => [("sdkver", .s (pad3 a ++ pad3 b))]
  | .title id v pc mc mt rom =>
    [("titleid", .s (hexU 16 id)), ("gamecd", .s pc), ("gamever", .s (hexU 4 v)), ("mediatype", .s (dec mt)), ("makercd", .s mc)] ++
    (if mt = 2 then [("romid", .s (rom.getD ""))] else [])
  | .device serial mac cert name unit => [("csnum", .s serial), ("macadr", .s mac), ("fcdcert", .b cert), ("devname", .u16 name), ("unitcd", .s unit)]
  | .network b a => [("bssid", .s b), ("apinfo", .s a)]
  | .locale r l => [("region", .s (hexU 2 r)), ("lang", .s (hexU 2 l))]
  | .user p h => [("uidhmac", .s h), ("userid", .s (dec p))]
  | .password pw => [("passwd", .s pw)]
  | .fpdVersion n => [("fpdver", .s (hexU 4 n))]
  | .environment e => [("servertype", .s e)]

/-- … and in the headers of the request -/
def NascSet.hdrFields : NascSet → Hdrs
  | .url u => [("Host", u)]
  | .fpdVersion n => [("User-Agent", "CTR FPD/" ++ hexU 4 n)]
  | _ => []

/-! ## hpp -/

structure Hpp where
  gameServerId : Nat
  environment : String := "L1"
  deriving DecidableEq, Repr

/-- `HppClient.host()` -/
def lowerAscii (s : String) : String := String.ofList (s.toList.map fun c => if 'A' ≤ c ∧ c ≤ 'Z' then Char.ofNat (c.toNat + 32) else c)

def Hpp.host (s : Hpp) : String := "hpp-" ++ hexL 8 s.gameServerId ++ "-" ++ lowerAscii s.environment ++ ".n.app.nintendo.net"

end Nx.Api
