import NxProofs.Cipher
import NxProofs.Sys
/-!
# C01 — "an unreliable message that is delivered is byte-identical to one that was sent", on the endpoint model

What `send_unreliable(data)` hands to the transport is a DATA packet without the RELIABLE flag whose payload is `data`
under the per-packet key (`make_unreliable_key`: the connection's unreliable base key modified by the packet's own
sequence id and session id). Any endpoint holding the same base key — the peer, after the handshake — that decodes this
very packet gets `data` back, whatever else it has decoded before and in whatever order packets arrive: the key depends on
the packet alone, the cipher always starts at position 0.
-/
namespace Nx.L1
open Nx Nx.Prudp Nx.Chan Nx.Crypto

/-- **unreliable data, end to end**: every packet `send_unreliable(data)` emits decodes, at any endpoint with the same
    unreliable base key and cipher setting, to exactly `data` — and decoding it does not disturb that endpoint -/
theorem unreliable_end_to_end (env : Env) (hl : EnvLaws env)
    (now : Time) (a b : Conn) (data : Bytes) (hk : b.unrelKey = a.unrelKey) (hon : b.cipherOn = a.cipherOn) :
    ∀ q ∈ emitted (a.sendUnreliable env now data),
      q.type = TYPE_DATA ∧ hasReliable q.flags = false ∧ b.decodePayload env q = .ok (data, b) := by
  intro q hq
  have hnrel : hasReliable (FLAG_NEED_ACK + FLAG_HAS_SIZE) = false := by decide
  have hack : (hasAck (FLAG_NEED_ACK + FLAG_HAS_SIZE) || hasMultiAck (FLAG_NEED_ACK + FLAG_HAS_SIZE)) = false := by decide
  have hne : TYPE_DATA ≠ TYPE_SYN := by decide
  unfold Conn.sendUnreliable at hq
  split at hq
  · simp [emitted, R.fail] at hq
  · simp only [Conn.sendPacket, mkPacket, hack, Conn.assignIf, Bool.false_eq_true, if_false, Conn.assign, hnrel, if_true, hne, ne_eq,
      not_false_eq_true, Conn.encodeIf, Bool.not_false, and_true, Conn.encodePayload] at hq
    by_cases hemp : data.isEmpty = true
    · -- an empty payload travels as it is
      simp only [hemp, Bool.not_true, Bool.false_eq_true, and_false, if_false] at hq
      rcases (transmit_emit env now _ _).1 with h | h
      · rw [h.1] at hq; cases hq
      · rw [h.1] at hq
        have hqe := List.mem_singleton.mp hq
        subst hqe
        have hd : data = [] := by cases data with
          | nil => rfl
          | cons _ _ => simp at hemp
        subst hd
        refine ⟨rfl, hnrel, ?_⟩
        unfold Conn.decodePayload
        simp
    · have hemp' : data.isEmpty = false := by simpa using hemp
      have hcne : (env.compress data).isEmpty = false := by
        have hne : data ≠ [] := by intro h; rw [h] at hemp'; cases hemp'
        have := hl.nonempty data hne
        cases hz : env.compress data with
        | nil => exact absurd hz this
        | cons _ _ => rfl
      simp only [hemp', Bool.not_false, and_self, if_true] at hq
      cases hc : a.cipherOn with
      | true =>
        simp only [hc, if_true] at hq
        rcases (transmit_emit env now _ _).1 with h | h
        · rw [h.1] at hq; cases hq
        · rw [h.1] at hq
          have hqe := List.mem_singleton.mp hq
          subst hqe
          refine ⟨rfl, hnrel, ?_⟩
          unfold Conn.decodePayload
          simp only [rc4At_isEmpty, hcne, Bool.not_false, and_self, if_true, hnrel, Bool.false_eq_true, if_false, hon, hc, hk,
            rc4At_involutive, hl.round]
      | false =>
        simp only [hc, Bool.false_eq_true, if_false] at hq
        rcases (transmit_emit env now _ _).1 with h | h
        · rw [h.1] at hq; cases hq
        · rw [h.1] at hq
          have hqe := List.mem_singleton.mp hq
          subst hqe
          refine ⟨rfl, hnrel, ?_⟩
          unfold Conn.decodePayload
          simp only [hcne, Bool.not_false, and_self, if_true, hnrel, Bool.false_eq_true, if_false, hon, hc, hl.round]

end Nx.L1
